------------------------------- MODULE Trace -------------------------------
(* Binding B: events recorded from the real implementation are judged by the *)
(* clauses of Sem.tla / the reference semantics.  Verdicts are total: every  *)
(* event gets one line  {"id": .., "fail": [failing clause names]} ; the     *)
(* harness checks that every event was judged.  Events are independent, so   *)
(* they are spread over NShards root states to keep all TLC workers busy.    *)
EXTENDS Sem, Json, IOUtils, TLCExt

CONSTANT NShards
Events == ndJsonDeserialize(IOEnv.TRACE_FILE)

VARIABLES shard, idx
vars == <<shard, idx>>
Init == idx = 0 /\ shard \in 0..(NShards - 1)
Next == /\ idx = 0
        /\ \E k \in 1..Len(Events) : k % NShards = shard /\ idx' = k
        /\ UNCHANGED shard
Spec == Init /\ [][Next]_vars

AsC(x) == Curve(x.U, x.P, x.W)

(* quadrature rule returned by the code: nodes xs, weights ws, claimed order *)
RuleClauses(xs, ws, order) ==
  Fails({<<"same_length", Len(xs) = Len(ws)>>,
         <<"nodes_increasing_in_01",
             /\ \A i \in 1..Len(xs) : Le(Zero, xs[i]) /\ Le(xs[i], One)
             /\ \A i \in 1..(Len(xs) - 1) : Lt(xs[i], xs[i + 1])>>,
         <<"weights_sum_1", Len(xs) = Len(ws) => SumSeq(ws) = One>>,
         <<"moments_exact", Len(xs) = Len(ws) => MomentsExact(xs, ws, order)>>})

Judge(e) ==
  LET n == e.act.name IN
  CASE n = "CvKnotRemove"     -> KnotRemoveClauses(AsC(e.c), e.act.nodes, e.act.tol, e.cls, AsC(e.d), e.dv)
    [] n = "CvDegreeDecrease" -> DegreeDecreaseClauses(AsC(e.c), e.act.times, e.act.tol, e.cls, AsC(e.d), e.dv)
    [] n = "CvSetKnotvector"  -> SetKnotvectorClauses(AsC(e.c), e.act.kv, e.cls, AsC(e.d), e.dv)
    [] n = "CvJoin"           -> JoinClauses(AsC(e.c), AsC(e.b), e.cls, AsC(e.d), e.dv)
    [] n = "CvArith"          -> ArithClauses(e.act.op, AsC(e.c), AsC(e.b), e.cls, AsC(e.d), e.dv)
    [] n = "CvMatmul"         -> MatmulClauses(AsC(e.c), AsC(e.act.a2), AsC(e.b), AsC(e.act.b2), e.cls, AsC(e.d), e.dv)
    [] n = "CvLinear"         -> LinearClauses(e.act.a, e.act.b, AsC(e.c), AsC(e.b), e.cls, AsC(e.d), e.dv)
    [] n = "CvScalar"         -> ScalarClauses(e.act.op, e.act.s, AsC(e.c), e.cls, AsC(e.d), e.dv)
    [] n = "CvClean"          -> Fails({<<"same_function", ConsistentCurve(AsC(e.d)) /\
                                     ObservedEquals(AsC(e.c), e.dv, CommonBreaks(e.c.U, e.d.U), Deg(e.c.U) + Deg(e.d.U))>>})
    [] n = "SameFunction"     -> Fails({<<"result_consistent", ConsistentCurve(AsC(e.d))>>,
                                     <<"same_function", ConsistentCurve(AsC(e.d)) =>
                                         ObservedEquals(AsC(e.c), e.dv, CommonBreaks(e.c.U, e.d.U), Deg(e.c.U) + Deg(e.d.U))>>})
    \* the result d of an operation that keeps the function, observed on the sample points of the OLD curve's spans
    \* only (d may have knots TLC cannot hold, e.g. 1e-10 beside an old knot): deg+1 interior points per old span
    \* identify every polynomial piece of d that contains them
    [] n = "SameOnSpans"      -> Fails({<<"samples_cover_every_old_span", SamplesCover(e.dv, Knots(e.c.U), e.act.deg)>>,
                                     <<"same_values", \A i \in DOMAIN e.dv : e.dv[i][2] = Eval(AsC(e.c), e.dv[i][1])>>})
    [] n = "EvalObs"          -> Fails({<<"value_is_definition", ConsistentCurve(AsC(e.c)) =>
                                       \A i \in DOMAIN e.dv : e.dv[i][2] = Eval(AsC(e.c), e.dv[i][1])>>})
    [] n = "BasisObs"         -> LET U == e.act.kv W == e.act.weights j == e.act.j u == e.act.u
                                     row == IF W = <<>> THEN [i \in 1..(Len(U) - j - 1) |-> NN(U, LastSpan(U), i - 1, j, u)]
                                            ELSE RationalRow(U, W, j, u) IN
                                 Fails({<<"row_is_cox_de_boor", \A i \in DOMAIN row : i \in DOMAIN e.act.row => e.act.row[i] = row[i]>>,
                                        <<"rows_beyond_vanish", \A i \in (Len(row) + 1)..Len(e.act.row) : e.act.row[i] = Zero>>})
    [] n = "IntegObs"         -> Fails({<<"integral_is_closed_form", e.act.value = IntegralClosedForm(AsC(e.c))>>})
    [] n = "EqObs"            -> LET r == SameFunction3(AsC(e.c), AsC(e.b)) IN
                                 Fails({<<"eq_iff_same_function", (r = "yes" => e.act.eq) /\ (r = "no" => ~e.act.eq)>>,
                                        <<"?eq_unknown", r # "unknown">>})
    [] n = "ElevObs"          -> Fails({<<"result_consistent", ConsistentCurve(AsC(e.d))>>,
                                     <<"each_knot_mult_plus_t", e.d.U = SetDegreeKV(e.c.U, Deg(e.c.U) + e.act.times).kv>>,
                                     <<"same_function", ConsistentCurve(AsC(e.d)) =>
                                         ObservedEquals(AsC(e.c), e.dv, CommonBreaks(e.c.U, e.d.U), Deg(e.c.U) + Deg(e.d.U))>>})
    [] n = "DriverError"      -> {"operation_raised_unexpectedly"}
    [] n = "CvFitCurve"       -> FitCurveClauses(AsC(e.c), e.act.kv, e.act.nodes, AsC(e.d), e.act.err)
    [] n = "CvFitCurve2"      -> FitCurve2Clauses(AsC(e.c), AsC(e.b), e.act.kv, e.act.nodes, AsC(e.d), AsC(e.act.d2), e.act.err)
    [] n = "CvFitPoints"      -> FitPointsClauses(e.act.kv, e.act.weights, e.act.nodes, e.act.data, AsC(e.d))
    [] n = "Rule"             -> RuleClauses(e.act.xs, e.act.ws, e.act.order)
    [] n = "KvRandom"         -> Fails({<<"random_has_witness",
                                     /\ \A i \in DOMAIN e.act.w : e.act.w[i][2] = 1 /\ e.act.w[i][1] \in 1..999
                                     /\ Len(e.act.w) = e.act.n - e.act.p
                                     /\ e.d.U = NormalizeKV(WeightKV(e.act.p, e.act.w)).kv>>,
                                   <<"degree_npts", IsKnotVector(e.d.U) /\ Deg(e.d.U) = e.act.p /\ Npts(e.d.U) = e.act.n>>,
                                   <<"limits_exactly_01", Limits(e.d.U) = <<Zero, One>> >>})
    [] OTHER                  -> {"unknown_event_kind"}

RECURSIVE SetToSeqS(_)
SetToSeqS(S) == IF S = {} THEN <<>> ELSE LET x == CHOOSE y \in S : TRUE IN <<x>> \o SetToSeqS(S \ {x})

(* ovf: an arithmetic result left TLC's 32 bits while this event was judged (module Rat): the    *)
(* harness then counts the event as unknown, whatever the clause set says                          *)
Report == idx > 0 =>
  /\ OvfReset(idx)
  /\ LET f == SetToSeqS(Judge(Events[idx])) IN
     /\ f = f
     /\ PrintT(ToJson([id |-> Events[idx].id, fail |-> f, ovf |-> OvfSeen(idx)]))
=============================================================================
