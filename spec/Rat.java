import tlc2.value.impl.BoolValue;
import tlc2.value.impl.IntValue;
import tlc2.value.impl.TupleValue;
import tlc2.value.impl.Value;

/**
 * Java implementation of the arithmetic operators of module Rat (TLC module override).
 * Same semantics as the TLA+ definitions (AddDef ... in Rat.tla, equality checked by MC_Oracle),
 * but computed in 64-bit arithmetic: operands fit in 32 bits, so no product or sum can overflow a long.
 * A result whose normal form does not fit in 32 bits is returned as NaR = <<0,0>> (it propagates) and a
 * per-thread flag is raised, which OvfSeen reports, so that a clause evaluated on top of an overflow is
 * reported as "unknown" and never as a verdict.
 */
public class Rat {
    private static final ThreadLocal<boolean[]> OVF = ThreadLocal.withInitial(() -> new boolean[1]);
    private static final Value NAR = new TupleValue(IntValue.gen(0), IntValue.gen(0));

    private static long gcd(long a, long b) {
        a = Math.abs(a); b = Math.abs(b);
        while (b != 0) { long t = a % b; a = b; b = t; }
        return a;
    }
    private static long num(Value v) { return ((IntValue) ((TupleValue) v.toTuple()).elems[0]).val; }
    private static long den(Value v) { return ((IntValue) ((TupleValue) v.toTuple()).elems[1]).val; }
    private static boolean isNaR(Value v) { return den(v) == 0; }

    private static Value make(long n, long d) {
        if (d == 0) { OVF.get()[0] = true; return NAR; }
        if (d < 0) { n = -n; d = -d; }
        long g = gcd(n, d);
        if (g > 1) { n /= g; d /= g; }
        if (n > Integer.MAX_VALUE || n < -Integer.MAX_VALUE || d > Integer.MAX_VALUE) {
            OVF.get()[0] = true;
            return NAR;
        }
        return new TupleValue(IntValue.gen((int) n), IntValue.gen((int) d));
    }

    public static Value Norm(Value n, Value d) {
        return make(((IntValue) n).val, ((IntValue) d).val);
    }
    public static Value Add(Value a, Value b) {
        if (isNaR(a) || isNaR(b)) return NAR;
        long an = num(a), ad = den(a), bn = num(b), bd = den(b);
        long g = gcd(ad, bd);
        long da = ad / g, db = bd / g;
        // |an*db| < 2^62, sum < 2^63
        return make(an * db + bn * da, da * bd);
    }
    public static Value Sub(Value a, Value b) {
        if (isNaR(a) || isNaR(b)) return NAR;
        long an = num(a), ad = den(a), bn = num(b), bd = den(b);
        long g = gcd(ad, bd);
        long da = ad / g, db = bd / g;
        return make(an * db - bn * da, da * bd);
    }
    public static Value Mul(Value a, Value b) {
        if (isNaR(a) || isNaR(b)) return NAR;
        long an = num(a), ad = den(a), bn = num(b), bd = den(b);
        if (an == 0 || bn == 0) return new TupleValue(IntValue.gen(0), IntValue.gen(1));
        long g1 = gcd(an, bd), g2 = gcd(bn, ad);
        return make((an / g1) * (bn / g2), (ad / g2) * (bd / g1));
    }
    public static Value Div(Value a, Value b) {
        if (isNaR(a) || isNaR(b)) return NAR;
        long an = num(a), ad = den(a), bn = num(b), bd = den(b);
        if (bn == 0) { OVF.get()[0] = true; return NAR; }
        if (an == 0) return new TupleValue(IntValue.gen(0), IntValue.gen(1));
        long g1 = gcd(an, bn), g2 = gcd(bd, ad);
        return make((an / g1) * (bd / g2), (ad / g2) * (bn / g1));
    }
    public static Value Inv(Value a) {
        if (isNaR(a)) return NAR;
        return make(den(a), num(a));
    }
    public static Value Neg(Value a) {
        if (isNaR(a)) return NAR;
        return make(-num(a), den(a));
    }
    public static Value Lt(Value a, Value b) {
        if (isNaR(a) || isNaR(b)) { OVF.get()[0] = true; return BoolValue.ValFalse; }
        return (num(a) * den(b) < num(b) * den(a)) ? BoolValue.ValTrue : BoolValue.ValFalse;
    }
    public static Value Le(Value a, Value b) {
        if (isNaR(a) || isNaR(b)) { OVF.get()[0] = true; return BoolValue.ValFalse; }
        return (num(a) * den(b) <= num(b) * den(a)) ? BoolValue.ValTrue : BoolValue.ValFalse;
    }
    /** OvfReset(x): clears the per-thread overflow flag; TRUE */
    public static Value OvfReset(Value x) { OVF.get()[0] = false; return BoolValue.ValTrue; }
    /** OvfSeen(x): was a NaR produced (or compared) since the last reset on this thread? */
    public static Value OvfSeen(Value x) { return OVF.get()[0] ? BoolValue.ValTrue : BoolValue.ValFalse; }
}
