SPECIFICATION Spec
CONSTANTS
  ArgsOf <- MCArgs
  InitHeaps <- MCInit2
  MaxDepth = 1
  Breaks <- BreaksW
  Degs <- DegsW
  MaxNpts = 11
  Acts = {"CvSplit"}
  PtKinds = {"gen"}
  WtKinds = {"none"}
  ExtraNodes <- Extra0
  NodeSize = 1
  Scenario = "single"
  PrepDepth = 0
  OtherDegs <- DegsQ
  OtherMaxNpts = 4
INVARIANT WellFormed
PROPERTY FailedIsNoOp
PROPERTY SplitRestricts
ACTION_CONSTRAINT Log
VIEW View
CHECK_DEADLOCK FALSE
