SPECIFICATION Spec
CONSTANTS
  ArgsOf <- MCArgs
  InitHeaps <- MCInit2
  MaxDepth = 1
  Breaks <- BreaksQ
  Degs <- DegsN
  MaxNpts = 9
  Acts = {"CvDerivate"}
  PtKinds = {"gen"}
  WtKinds = {"none", "gen", "const"}
  ExtraNodes <- Extra0
  NodeSize = 2
  Scenario = "single"
  PrepDepth = 0
  OtherDegs <- DegsQ
  OtherMaxNpts = 4
INVARIANT WellFormed
PROPERTY FailedIsNoOp
PROPERTY DerivFormulaAgrees
ACTION_CONSTRAINT Log
VIEW View
CHECK_DEADLOCK FALSE
