------------------------------ MODULE MC_Curve ------------------------------
(* Single-curve instances: evaluation (C01), basis functions (C02), knot    *)
(* insertion (C04), degree elevation (C06), splitting (C07).  One cfg per   *)
(* property selects the actions through Acts.                               *)
EXTENDS Nurbs

CONSTANTS Breaks, Degs, MaxNpts, Acts, PtKinds, WtKinds, ExtraNodes, NodeSize

AllKV == KVs(Breaks, Degs, MaxNpts)

Pts(n) == (IF "gen" \in PtKinds THEN {Gen1(n), Gen2(n)} ELSE {})
          \cup (IF "unit" \in PtKinds THEN {Unit(n, k) : k \in 1..n} ELSE {})
Wts(n) == (IF "none" \in WtKinds THEN {<<>>} ELSE {})
          \cup (IF "const" \in WtKinds THEN {Const(n, Two)} ELSE {})
          \cup (IF "gen" \in WtKinds THEN {WGen1(n)} ELSE {})
          \cup (IF "gen2" \in WtKinds THEN {WGen2(n)} ELSE {})

MCInit == IF Acts = {"FnBasis"} THEN {[a |-> KvObj(U)] : U \in AllKV}
          ELSE {[a |-> CvObj(Curve(U, P, W))] : U \in AllKV, P \in Pts(MaxNpts), W \in Wts(MaxNpts)}
\* (Pts/Wts are cut to the right length below; TLC needs the set before U is known)

CutTo(s, n) == [i \in 1..n |-> s[i]]
MCInit2 ==
  IF Acts = {"FnBasis"} THEN {[a |-> KvObj(U)] : U \in AllKV}
  ELSE UNION {{[a |-> CvObj(Curve(U, P, W))] : P \in Pts(Npts(U)), W \in Wts(Npts(U))} : U \in AllKV}

NodePool(U) == KnotSet(U) \cup Midpoints(U) \cup Outside(U) \cup {x \in ExtraNodes : Valid(U, x)}
EvalGrid(U) == ParamGrid(U, Deg(U) + 1)

MCArgs(name, h) ==
  IF name \notin Acts THEN {} ELSE
  LET U == h["a"].U IN
  CASE name = "CvEval" ->
         {[obj |-> "a", nodes |-> <<u>>, scalar |-> TRUE] : u \in EvalGrid(U) \cup Outside(U)}
         \cup {[obj |-> "a", nodes |-> SeqOfSet(EvalGrid(U)), scalar |-> FALSE, form |-> f] : f \in {"tuple", "list"}}
         \cup {[obj |-> "a", nodes |-> <<Umin(U), Add(Umax(U), One), Umax(U)>>, scalar |-> FALSE, form |-> "tuple"],
               [obj |-> "a", nodes |-> <<Umax(U), Umin(U)>>, scalar |-> FALSE, form |-> "list"],
               [obj |-> "a", nodes |-> <<>>, scalar |-> FALSE, form |-> "tuple"]}
    [] name = "FnBasis" ->
         {[obj |-> "a", weights |-> W, j |-> j, u |-> u] :
             W \in Wts(Npts(U)), j \in 0..Deg(U), u \in EvalGrid(U)}
    [] name = "CvKnotInsert" ->
         {[obj |-> "a", nodes |-> n] : n \in MultisetsUpTo(NodePool(U), NodeSize)}
         \cup {[obj |-> "a", nodes |-> <<Umin(U), Umax(U)>>]}
         \cup {[obj |-> "a", nodes |-> <<x, y>>] : x, y \in {z \in Midpoints(U) : TRUE}}
    [] name = "CvDegreeIncrease" ->
         {[obj |-> "a", times |-> t, form |-> f] : t \in 1..2, f \in {"method", "setter"}}
    [] name = "CvSplit" ->
         {[obj |-> "a", nodes |-> n, form |-> "nodes"] : n \in SeqsUpTo(NodePool(U), NodeSize)}
         \cup {[obj |-> "a", nodes |-> Knots(U), form |-> "noarg"]}
    [] OTHER -> {}

BreaksQ == <<R(-1), R(0), R(2), R(3)>>
BreaksT == <<R(0), Half, R(2), R(3)>>
DegsQ == 0..2
DegsT == 0..3
Extra0 == {Zero, One}
=============================================================================
