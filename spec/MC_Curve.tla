------------------------------ MODULE MC_Curve ------------------------------
(* Single-curve instances: evaluation (C01), basis functions (C02), knot    *)
(* insertion (C04), degree elevation (C06), splitting (C07).  One cfg per   *)
(* property selects the actions through Acts.                               *)
EXTENDS Nurbs

CONSTANTS Breaks, Degs, MaxNpts, Acts, PtKinds, WtKinds, ExtraNodes, NodeSize,
          Scenario, PrepDepth, OtherDegs, OtherMaxNpts

(* universes over more than 4 break points are SPARSE: about one multiplicity pattern in 13 (a fixed arithmetic  *)
(* selection), so that degrees 3..4 over 6 break points stay small enough to replay                              *)
KeepSparse(U) == (SumSeq([i \in 1..Len(U) |-> R(i * (U[i][1] + 3 * U[i][2]))])[1] % 13) = 0
AllKV == IF Len(Breaks) <= 4 THEN KVs(Breaks, Degs, MaxNpts) ELSE {U \in KVs(Breaks, Degs, MaxNpts) : KeepSparse(U)}

Pts(n) == (IF "gen" \in PtKinds THEN {Gen1(n), Gen2(n)} ELSE {})
          \cup (IF "pos" \in PtKinds THEN {[i \in 1..n |-> R(1 + ((i * 3) % 4))]} ELSE {})
          \cup (IF "flat" \in PtKinds THEN {Const(n, Q(5, 2))} ELSE {})
          \* a bump of height 1/30000: not removable exactly, removable within the DEFAULT tolerance 1e-9
          \cup (IF "bump" \in PtKinds /\ n >= 3 THEN {[i \in 1..n |-> IF i = 2 THEN Q(1, 30000) ELSE Zero]} ELSE {})
          \cup (IF "unit" \in PtKinds THEN {Unit(n, k) : k \in 1..n} ELSE {})
Wts(n) == (IF "none" \in WtKinds THEN {<<>>} ELSE {})
          \cup (IF "const" \in WtKinds THEN {Const(n, Two)} ELSE {})
          \cup (IF "gen" \in WtKinds THEN {WGen1(n)} ELSE {})
          \cup (IF "gen2" \in WtKinds THEN {WGen2(n)} ELSE {})

MCInit == IF Acts = {"FnBasis"} THEN {[a |-> KvObj(U)] : U \in AllKV}
          ELSE {[a |-> CvObj(Curve(U, P, W))] : U \in AllKV, P \in Pts(MaxNpts), W \in Wts(MaxNpts)}
\* (Pts/Wts are cut to the right length below; TLC needs the set before U is known)

CutTo(s, n) == [i \in 1..n |-> s[i]]
(* Greville abscissae: with them as control points the spline is the identity u |-> u, which lives on every   *)
(* knot vector of degree >= 1.  "homlin" curves have w_i P_i = Greville_i with generic weights: the numerator  *)
(* spline is reducible everywhere, the weight function is not (numerator and denominator disagree).            *)
Greville(U, i) == LET p == Deg(U) IN Div(SumSeq([k \in 1..p |-> K(U, i + k - 1)]), R(p))     \* i = 1..npts, p >= 1
HomLin(U, W) == Curve(U, [i \in 1..Npts(U) |-> Div(Greville(U, i), W[i])], W)
(* weights 3 + Greville_i: the weight function is the LINEAR polynomial 3 + u (> 0 on the universe), so for degree >= 2 *)
(* every linear polynomial q lies in the rational space (q W has degree 2)                                              *)
LinW(U) == [i \in 1..Npts(U) |-> Add(R(3), Greville(U, i))]
MCInit2 ==
  IF Acts = {"FnBasis"} THEN {[a |-> KvObj(U)] : U \in AllKV}
  ELSE UNION {{[a |-> CvObj(Curve(U, P, W)), b |-> NoObj] : P \in Pts(Npts(U)), W \in Wts(Npts(U))} : U \in AllKV}
       \cup (IF "ratlin" \in PtKinds
             THEN {[a |-> CvObj(Curve(U, Gen1(Npts(U)), LinW(U))), b |-> NoObj] : U \in {V \in AllKV : Deg(V) >= 2}}
             ELSE {})
       \* a quadratic Bezier curve with weights (1, -1/4, 1): the weight function 1 - (5/2) u (1 - u) stays >= 3/8, the library
       \* accepts it; every refinement of it has positive weights but goes back to a NEGATIVE one when it is cleaned
       \cup (IF "negw" \in PtKinds
             THEN {[a |-> CvObj(Curve(U, Gen1(3), <<One, Q(-1, 4), One>>)), b |-> NoObj] : U \in {V \in AllKV : Deg(V) = 2 /\ Npts(V) = 3}}
             ELSE {})
       \cup (IF "homlin" \in PtKinds
             THEN UNION {{[a |-> CvObj(HomLin(U, W)), b |-> NoObj] : W \in {WGen1(Npts(U)), WGen2(Npts(U))}}
                            : U \in {V \in AllKV : Deg(V) >= 1}}
             ELSE {})

NodePool(U) == KnotSet(U) \cup Midpoints(U) \cup Outside(U) \cup {x \in ExtraNodes : Valid(U, x)}
EvalGrid(U) == ParamGrid(U, Deg(U) + 1) \cup Midpoints(U)

(* the default nodes of fit_points: closed equispaced over the whole interval *)
NCGrid(V, n) == [i \in 1..n |-> Add(Umin(V), Mul(Sub(Umax(V), Umin(V)), Q(i - 1, n - 1)))]
Rev(sq) == [i \in 1..Len(sq) |-> sq[Len(sq) + 1 - i]]
(* a ladder of explicit tolerances of ratio 2: whatever the deviation of a lossy removal, some rung lies just below *)
(* it and the next just above, so acceptance thresholds off by a factor (tolerance per knot, 2x, 1/2x) show      *)
TolLadder == {<<"q", 1, 16>>, <<"q", 1, 8>>, <<"q", 1, 4>>, <<"q", 1, 2>>, <<"q", 1, 1>>, <<"q", 2, 1>>, <<"q", 4, 1>>, <<"q", 8, 1>>}
Tols == {<<"default">>, <<"none">>, <<"q", 1, 2>>, <<"q", 0, 1>>, <<"e", 30>>}     \* 1e-9, None, 1/2, 0, 1e-30
InteriorSet(U) == KnotSet(U) \ {Umin(U), Umax(U)}

(* other operands for binary operations: curves of the universe on the same interval *)
OtherKVs == KVs(Breaks, OtherDegs, OtherMaxNpts)
PosPts(n) == [i \in 1..n |-> R(1 + ((i * 3) % 4))]                 \* 4,3,2,1,4,.. : positive, no zero
Others(kinds) ==
  UNION {{Curve(V, P, W) : P \in (IF "pos" \in kinds THEN {PosPts(Npts(V))} ELSE {Gen2(Npts(V)), PosPts(Npts(V))}),
                           W \in (IF "rational" \in kinds THEN {<<>>, WGen2(Npts(V))} ELSE {<<>>})} : V \in OtherKVs}

(* a curve starting where A ends *)
ShiftTo(c, x) == LET s == Sub(x, Umin(c.U)) IN [c EXCEPT !.U = ShiftKV(c.U, s).kv]
JoinOthers(A) ==
  LET base == {Curve(V, Gen2(Npts(V)), <<>>) : V \in OtherKVs}
      disc == {ShiftTo(c, Umax(A.U)) : c \in base}
      cont == {[c EXCEPT !.P[1] = A.P[Len(A.P)]] : c \in disc}
  IN disc \cup cont \cup {ShiftTo(CHOOSE c \in base : TRUE, Add(Umax(A.U), One))}

EqOthers(A) ==
  LET U == A.U n == Npts(U)
      refs == {Refine(A, V) : V \in {W \in {SortedUnion(SetDegreeKV(U, Deg(U) + t).kv, ex) :
                                                t \in 0..1, ex \in MultisetsUpTo(Midpoints(U) \cup InteriorSet(U), 1)} :
                                         IsKnotVector(W) /\ Refines(W, U)}}
      pert == {[A EXCEPT !.P[k] = Add(@, Q(1, 100))] : k \in {1, n}}
      ratl == IF A.W = <<>> THEN {Curve(U, A.P, Const(n, Two)), Curve(U, A.P, WGen1(n))}
              ELSE {Curve(U, A.P, [i \in 1..n |-> Mul(A.W[i], R(3))]), Curve(U, A.P, <<>>)}
      far  == {[A EXCEPT !.U = ShiftKV(U, One).kv]}
      (* same control points and weights on ANOTHER knot vector with as many control points:   *)
      (* equal tuples, (usually) different functions; for a flat curve the same function       *)
      sameN == {Curve(V, A.P, A.W) : V \in {W \in AllKV : Npts(W) = n /\ W # U /\ Limits(W) = Limits(U)}}
  IN refs \cup pert \cup ratl \cup far \cup sameN \cup {[r EXCEPT !.P[1] = Add(@, One)] : r \in refs}

MCArgs(name, h, dep) ==
  IF name \notin Acts THEN {} ELSE
  LET U == h["a"].U IN
  CASE name = "CvEval" ->
         {[obj |-> "a", nodes |-> <<u>>, scalar |-> TRUE] : u \in EvalGrid(U) \cup Outside(U)}
         \cup {[obj |-> "a", nodes |-> SeqOfSet(EvalGrid(U)), scalar |-> FALSE, form |-> f] : f \in {"tuple", "list"}}
         \cup {[obj |-> "a", nodes |-> <<Umin(U), Add(Umax(U), One), Umax(U)>>, scalar |-> FALSE, form |-> "tuple"],
               [obj |-> "a", nodes |-> <<Umax(U), Umin(U)>>, scalar |-> FALSE, form |-> "list"],
               \* many nodes at once, unsorted and repeated, as a numpy array and as a generator
               [obj |-> "a", nodes |-> Rev(SeqOfSet(EvalGrid(U))) \o SeqOfSet(EvalGrid(U)), scalar |-> FALSE, form |-> "array"],
               [obj |-> "a", nodes |-> Rev(SeqOfSet(EvalGrid(U))) \o <<Umin(U), Umin(U)>>, scalar |-> FALSE, form |-> "gen"],
               [obj |-> "a", nodes |-> <<>>, scalar |-> FALSE, form |-> "tuple"]}
    [] name = "FnBasis" ->
         {[obj |-> "a", weights |-> W, j |-> j, u |-> u] :
             W \in Wts(Npts(U)), j \in 0..Deg(U),
             \* (also the break points of the universe that are no knots of U: parameters at thirds of long spans)
             u \in EvalGrid(U) \cup {Breaks[i] : i \in 1..Len(Breaks)}}
    [] name = "CvKnotInsert" ->
         IF Scenario = "single" THEN
           {[obj |-> "a", nodes |-> n] : n \in MultisetsUpTo(NodePool(U), NodeSize)}
           \cup {[obj |-> "a", nodes |-> <<Umin(U), Umax(U)>>]}
           \cup (IF Len(Breaks) > 4 THEN {} ELSE {[obj |-> "a", nodes |-> <<x, y>>] : x, y \in {z \in Midpoints(U) : TRUE}})
           \* unsorted requests of three nodes (repetition counts that differ, non-adjacent repeats)
           \cup (IF Len(Breaks) > 4 THEN {} ELSE
                 {[obj |-> "a", nodes |-> n] :
                    n \in {m \in SeqsUpTo(Midpoints(U) \cup {x \in InteriorSet(U) : MultOf(U, x) = 1}, 3) :
                             Len(m) = 3 /\ ~(Le(m[1], m[2]) /\ Le(m[2], m[3]))}})
           \* many nodes in one call: every span midpoint up to Deg times (interleaved order), as a numpy array / generator;
           \* thirds of the first span with a midpoint in between
           \cup (IF Deg(U) = 0 THEN {} ELSE
                 LET ms == SeqOfSet(Midpoints(U))
                     many == Rev(ms) \o (IF Deg(U) >= 2 THEN ms ELSE <<>>) \o (IF Deg(U) >= 3 THEN ms ELSE <<>>)
                     a1 == Umin(U) b1 == Knots(U)[2]
                     thirds == <<Add(a1, Mul(Sub(b1, a1), Q(2, 3))), Mid(a1, b1), Add(a1, Mul(Sub(b1, a1), Q(1, 3))), Mid(a1, b1)>> IN
                 {[obj |-> "a", nodes |-> many, form |-> "array"], [obj |-> "a", nodes |-> many, form |-> "gen"]}
                 \cup (IF Deg(U) >= 2 THEN {[obj |-> "a", nodes |-> thirds, form |-> "tuple"]} ELSE {}))
         ELSE IF dep < PrepDepth /\ Len(Breaks) > 4 THEN
           \* wide universe: one knot raised to FULL multiplicity (3 or 4 copies at once), the preparation of a cleaning
           \* that has to take several copies of one knot out again
           {[obj |-> "a", nodes |-> [i \in 1..(Deg(U) + 1 - MultOf(U, x)) |-> x]] :
               x \in {y \in InteriorSet(U) \cup {Mid(Knots(U)[1], Knots(U)[2])} : Deg(U) + 1 - MultOf(U, y) >= 3}}
         ELSE IF dep < PrepDepth THEN
           {[obj |-> "a", nodes |-> n] :
               n \in {m \in MultisetsUpTo(Midpoints(U) \cup InteriorSet(U), NodeSize) \ {<<>>} : InsertGuard(U, m)}}
         ELSE {}
    [] name = "CvDegreeIncrease" ->
         IF Scenario = "single" \/ dep < PrepDepth
         THEN {[obj |-> "a", times |-> t, form |-> f] : t \in 1..2, f \in {"method", "setter"}}
         ELSE {}
    [] name = "CvSplit" ->
         {[obj |-> "a", nodes |-> n, form |-> "nodes"] : n \in SeqsUpTo(NodePool(U), NodeSize)}
         \cup {[obj |-> "a", nodes |-> Knots(U), form |-> "noarg"]}
    [] name = "CvKnotRemove" ->
         {[obj |-> "a", nodes |-> n, tol |-> <<"default">>] :
             n \in MultisetsUpTo(InteriorSet(U), NodeSize) \ {<<>>}}
         \cup {[obj |-> "a", nodes |-> <<x>>, tol |-> t] : x \in InteriorSet(U), t \in {<<"none">>, <<"q", 0, 1>>}}
         \cup (IF InteriorSet(U) = {} THEN {} ELSE
               {[obj |-> "a", nodes |-> <<CHOOSE x \in InteriorSet(U) : TRUE>>, tol |-> t] : t \in {<<"q", 1, 2>>, <<"e", 30>>}})
         \cup {[obj |-> "a", nodes |-> n, tol |-> <<"default">>] : n \in {<<Q(5, 7)>>, <<Umin(U)>>, <<Umax(U)>>}}
         \cup (IF Lt(One, Width(U)) THEN {} ELSE
               {[obj |-> "a", nodes |-> n, tol |-> t] : n \in MultisetsUpTo(InteriorSet(U), NodeSize) \ {<<>>}, t \in TolLadder})
    [] name = "CvDegreeDecrease" ->
         {[obj |-> "a", times |-> t, tol |-> <<"default">>, form |-> f] : t \in 1..2, f \in {"method", "setter"}}
         \cup {[obj |-> "a", times |-> 1, tol |-> t, form |-> "method"] : t \in Tols \ {<<"default">>}}
         \cup (IF Lt(One, Width(U)) THEN {} ELSE
               {[obj |-> "a", times |-> k, tol |-> t, form |-> "method"] : k \in 1..2, t \in TolLadder})
    [] name = "CvClean" ->
         \* explicit tolerance 1e-30: exact removals are still accepted, everything else must be refused (an inexact
         \* removal of these small-height rational data deviates by far more); curves with a tiny bump are cleaned
         \* only with it (with the default 1e-9 their lossy simplification is legitimately accepted)
         LET bump == \E i \in DOMAIN h["a"].P : ~IsZero(h["a"].P[i]) /\ Lt(RAbs(h["a"].P[i]), Q(1, 1000)) IN
         {[obj |-> "a", which |-> w, tol |-> t] : w \in {"knot", "degree", "all"},
                                                  t \in (IF bump THEN {<<"e", 30>>} ELSE {<<"default">>, <<"e", 30>>})}
    [] name = "CvSplitJoin" ->
         LET ms == SeqOfSet(Midpoints(U)) is == SeqOfSet(InteriorSet(U)) IN
         {[obj |-> "a", nodes |-> n, form |-> f] :
             n \in {ms, Rev(ms) \o is, <<ms[1]>>, is \o Rev(ms) \o <<ms[1]>>} \ {<<>>}, f \in {"list", "array"}}
    [] name = "CvSplitTake" ->
         IF dep = 0 THEN
           {[obj |-> "a", nodes |-> <<x>>, i |-> 1] : x \in (Midpoints(U) \cup InteriorSet(U) \cup {y \in ExtraNodes : Lt(Umin(U), y) /\ Lt(y, Umax(U))})}
           \cup {[obj |-> "a", nodes |-> <<x, y>>, i |-> i] : x \in Midpoints(U), y \in InteriorSet(U), i \in 1..2}
         ELSE {}
    [] name = "CvJoin" ->
         IF h["b"].kind = "cv" THEN {[obj |-> "a", other |-> AsCurve(h["b"])]}
         ELSE {[obj |-> "a", other |-> B] : B \in JoinOthers(AsCurve(h["a"]))}
    [] name = "CvArith" ->
         {[obj |-> "a", other |-> B, op |-> o] : B \in Others({}), o \in {"add", "sub", "mul"}}
         \cup {[obj |-> "a", other |-> B, op |-> "div"] : B \in Others({"pos"})}
         \* a divisor without zeros whose control polygon changes sign: (1, -1/2, 1) is 1 - 3t(1-t) >= 1/4
         \cup {[obj |-> "a", other |-> Poly(<<Umin(U), Umin(U), Umin(U), Umax(U), Umax(U), Umax(U)>>, <<One, Q(-1, 2), One>>), op |-> "div"]}
         \* both operands rational (different weights, different knot vectors)
         \cup (IF h["a"].W = <<>> THEN {} ELSE
               {[obj |-> "a", other |-> B, op |-> o] : B \in {C \in Others({"pos", "rational"}) : C.W # <<>>},
                                                     o \in {"add"}}
               \cup {[obj |-> "a", other |-> B, op |-> o] :
                        B \in {C \in Others({"pos", "rational"}) : C.W # <<>> /\ Npts(C.U) = 2}, o \in {"sub", "mul", "div"}})
         \cup {[obj |-> "a", other |-> ShiftTo(CHOOSE B \in Others({"pos"}) : TRUE, Add(Umin(U), One)), op |-> o] :
                   o \in {"add", "sub", "mul", "div"}}
    [] name = "CvScalar" ->
         {[obj |-> "a", op |-> o, s |-> x] : o \in {"s+A", "A+s", "s-A", "A-s", "s*A", "A*s", "A/s"}, x \in {R(3), Q(-1, 2)}}
         \cup {[obj |-> "a", op |-> "neg", s |-> Zero]}
         \cup (IF \A i \in DOMAIN h["a"].P : Sign(h["a"].P[i]) > 0
               THEN {[obj |-> "a", op |-> "s/A", s |-> x] : x \in {R(3), One, Q(-1, 2)}} ELSE {})
    [] name = "CvEq" ->
         {[obj |-> "a", other |-> B] : B \in EqOthers(AsCurve(h["a"]))}
         \cup {[obj |-> "a", other |-> NotCurve], [obj |-> "a", other |-> AsCurve(h["a"])]}
    [] name = "CvDerivate" -> {[obj |-> "a"]}
    [] name = "IntegrateFn" ->
         {[obj |-> "a", k |-> k, method |-> m, nnodes |-> n] :
             m \in {"closed-newton-cotes", "open-newton-cotes", "chebyshev", "gauss-legendre", "default"},
             n \in 2..4, k \in 0..3} \ {x \in [obj : {"a"}, k : 0..3, method : {"closed-newton-cotes", "open-newton-cotes", "chebyshev", "gauss-legendre", "default"}, nnodes : 2..4] :
                                            (x.k >= x.nnodes /\ x.method # "gauss-legendre") \/ (x.method = "default" /\ x.nnodes # 2)}
    [] name = "CvIntegrate" ->
         IF h["a"].W = <<>>
         THEN {[obj |-> "a", method |-> m, nnodes |-> n] :
                  m \in {"default", "closed-newton-cotes", "open-newton-cotes", "chebyshev", "gauss-legendre"},
                  n \in {0, Deg(U) + 1, Deg(U) + 2}}
              \ {x \in [obj : {"a"}, method : {"closed-newton-cotes"}, nnodes : {0, Deg(U) + 1, Deg(U) + 2}] :
                    \* a closed rule needs two nodes, and it samples the right-continuous value at the right end of
                    \* a span, which is the next piece's value at a discontinuity: outside the property
                    \/ (x.nnodes = 1 \/ (x.nnodes = 0 /\ Deg(U) = 0))
                    \/ \E k \in KnotSet(U) \ {Umin(U), Umax(U)} : MultOf(U, k) = Deg(U) + 1}
         ELSE {}
    [] name = "CvFitCurve" ->
         LET V == U IN
         {[obj |-> "a", other |-> C, nodes |-> nd] :
             C \in {c \in Others({}) : c.W = <<>>},
             nd \in {<<>>} \cup (IF Deg(V) >= 1 THEN {<<Umin(V), Umax(V)>>, Knots(V)} ELSE {})}
    [] name = "CvFitInRational" ->    \* a rational receiver whose space contains the (linear) source: reproduced
         IF h["a"].W = <<>> \/ h["a"].W # LinW(U) THEN {} ELSE
         {[obj |-> "a", other |-> Poly(<<Umin(U), Umin(U), Umax(U), Umax(U)>>, <<x, y>>), nodes |-> <<>>] :
             x \in {R(2), Q(-1, 3)}, y \in {R(-1), Q(5, 7)}}
    [] name = "CvFitPoints" ->
         LET V == U
             grid == SeqOfSet(EvalGrid(V))
             src  == Curve(V, Gen2(Npts(V)), h["a"].W)
         IN {[obj |-> "a", nodes |-> grid, data |-> [i \in 1..Len(grid) |-> Q(((i * 5) % 7) - 3, 1 + (i % 2))], dflt |-> FALSE],
             [obj |-> "a", nodes |-> grid, data |-> [i \in 1..Len(grid) |-> Eval(src, grid[i])], dflt |-> FALSE],
             [obj |-> "a", nodes |-> <<Umin(V)>>, data |-> <<One>>, dflt |-> FALSE],
             \* replicated measurements: every node of the grid occurs again (interleaved, unsorted) with OTHER data
             [obj |-> "a", nodes |-> grid \o Rev(grid),
                           data |-> [i \in 1..(2 * Len(grid)) |-> Q(((i * 5) % 7) - 3, 1 + (i % 2))], dflt |-> FALSE]}
            \cup (IF Npts(V) = Deg(V) + 1
                  THEN LET sq == [i \in 1..Npts(V) |-> Add(Umin(V), Mul(Sub(Umax(V), Umin(V)), Q(i - 1, Npts(V))))] IN
                       {[obj |-> "a", nodes |-> sq, data |-> [i \in 1..Len(sq) |-> R(i * i - 2)], dflt |-> FALSE]}
                  ELSE {})
            \* square systems on several spans: one node in the middle of the support of every basis function
            \* (unisolvent by Schoenberg-Whitney when they are distinct), given in several ORDERS
            \cup (LET n   == Npts(V)
                      mid == [i \in 1..n |-> Mid(K(V, i - 1), K(V, i + Deg(V)))]
                      ords == {[i \in 1..n |-> i], [i \in 1..n |-> n + 1 - i], [i \in 1..n |-> 1 + ((i + 1) % n)],
                               [i \in 1..n |-> IF i = 2 THEN n ELSE IF i = n THEN 2 ELSE i]}
                  IN IF Cardinality({mid[i] : i \in 1..n}) = n /\ n >= 3
                     THEN {[obj |-> "a", nodes |-> [i \in 1..n |-> mid[o[i]]], data |-> [i \in 1..n |-> R(((o[i] * o[i]) % 7) - 2)], dflt |-> FALSE] : o \in ords}
                          \cup {[obj |-> "a", nodes |-> [i \in 1..n |-> mid[o[i]]], data |-> [i \in 1..n |-> Eval(src, mid[o[i]])], dflt |-> FALSE] : o \in ords}
                     ELSE {})
            \cup (IF h["a"].W = <<>> /\ Npts(V) = Deg(V) + 1 THEN   \* default nodes: unisolvent for one span
                    {[obj |-> "a", nodes |-> NCGrid(V, Npts(V) + k), data |-> [i \in 1..(Npts(V) + k) |-> R((i * i) % 5)], dflt |-> TRUE] : k \in {j \in {0, 2} : Npts(V) + j >= 2}}
                  ELSE {})
    [] name = "CvFitFunction" ->
         {[obj |-> "a", src |-> Curve(U, Gen2(Npts(U)), h["a"].W)]}
    [] name = "CvCopy" -> {[obj |-> "a"]}
    [] name = "CvFraction" -> {[obj |-> "a"]}
    [] OTHER -> {}

BreaksQ == <<R(-1), R(0), R(2), R(3)>>
BreaksT == <<R(0), Half, R(2), R(3)>>
BreaksW == <<R(-1), R(0), Half, R(2), R(3), R(5)>>   \* wide: four interior break points, unequal spans
DegsW == 3..4
BreaksB == <<R(0), R(1)>>      \* single span: Bezier curves only
Degs6 == {6, 13}
Degs7 == {7, 14}
Degs3 == {3}
Degs0 == {0}
BreaksN == <<R(0), Q(1, 3), Q(2, 3), R(1)>>   \* a SHORT interval: max(1, umax-umin) = 1, the tolerance bound is not diluted
DegsQ == 0..2
DegsT == 0..3
Degs4 == 0..4
DegsN == 1..2
Extra0 == {Zero, One}
=============================================================================
