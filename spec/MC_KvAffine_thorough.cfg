SPECIFICATION Spec
CONSTANTS
  ArgsOf <- MCArgs
  InitHeaps <- MCInit
  MaxDepth = 2
  Breaks <- BreaksT
  Degs <- DegsT
  MaxNpts = 7
  CtorLen = 2
  Rich = FALSE
  Acts = {"KvValueOp", "KvShift", "KvScale", "KvNormalize", "FnBasis"}
INVARIANT WellFormed
PROPERTY FailedIsNoOp
PROPERTY AffineProps
ACTION_CONSTRAINT Log
VIEW View
CHECK_DEADLOCK FALSE
