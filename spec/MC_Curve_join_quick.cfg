SPECIFICATION Spec
CONSTANTS
  ArgsOf <- MCArgs
  InitHeaps <- MCInit2
  MaxDepth = 2
  Breaks <- BreaksQ
  Degs <- DegsQ
  MaxNpts = 4
  Acts = {"CvSplitTake", "CvJoin"}
  PtKinds = {"gen"}
  WtKinds = {"none", "gen"}
  ExtraNodes <- Extra0
  NodeSize = 2
  Scenario = "single"
  PrepDepth = 0
  OtherDegs <- DegsQ
  OtherMaxNpts = 3
INVARIANT WellFormed
PROPERTY FailedIsNoOp
PROPERTY JoinRestores
ACTION_CONSTRAINT Log
VIEW View
CHECK_DEADLOCK FALSE
