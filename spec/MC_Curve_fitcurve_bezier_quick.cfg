SPECIFICATION Spec
CONSTANTS
  ArgsOf <- MCArgs
  InitHeaps <- MCInit2
  MaxDepth = 1
  Breaks <- BreaksB
  Degs <- Degs6
  MaxNpts = 14
  Acts = {"CvFitCurve"}
  PtKinds = {"pos"}
  WtKinds = {"none"}
  ExtraNodes <- Extra0
  NodeSize = 2
  Scenario = "single"
  PrepDepth = 0
  OtherDegs <- Degs7
  OtherMaxNpts = 15
INVARIANT WellFormed
PROPERTY FailedIsNoOp

ACTION_CONSTRAINT Log
VIEW View
CHECK_DEADLOCK FALSE
