------------------------------- MODULE Nurbs -------------------------------
(* The state machine of compmec/nurbs.                                      *)
(*                                                                          *)
(* State: a small heap of objects (KnotVector objects and Curve objects,    *)
(* each fully described by the values the public API exposes) plus the      *)
(* module-level memo tables of quadrature rules.  Every public method is    *)
(* one atomic action; its success and its refusal are separate outcomes of  *)
(* the action, the refusal leaving the heap unchanged.  `act' and `ret' are *)
(* observation variables (what was called, what came back); they are hidden *)
(* from the fingerprint by VIEW and printed by the ACTION_CONSTRAINT Log so *)
(* that every transition TLC explores becomes one test of the real code.    *)
(*                                                                          *)
(* The argument universes are supplied by the MC_* instance through the     *)
(* constant operator ArgsOf(name, heap).                                    *)
EXTENDS Universe, Sem, Geometry, Json

CONSTANTS ArgsOf(_, _, _),   \* action name, heap, depth  ->  set of argument records
          InitHeaps,         \* set of initial heaps
          MaxDepth

VARIABLES heap, memo, act, ret, depth
vars == <<heap, memo, act, ret, depth>>

KvObj(U)  == [kind |-> "kv", U |-> U]
CvObj(c)  == [kind |-> "cv", U |-> c.U, P |-> c.P, W |-> c.W]
NoObj     == [kind |-> "none"]
NotCurve  == [U |-> <<>>, P |-> <<>>, W |-> <<>>]      \* stands for a non-curve operand
AsCurve(o) == Curve(o.U, o.P, o.W)

Families == {"closed", "open", "cheby", "gauss"}
MemoInit == [f \in {"nodes_cheby", "nodes_gauss", "w_closed", "w_open", "w_cheby", "w_gauss"} |->
               CASE f = "nodes_cheby" -> {1} [] f = "nodes_gauss" -> {1}
                 [] f = "w_closed" -> {2, 3, 4} [] OTHER -> {1, 2, 3}]

Init == /\ heap \in InitHeaps
        /\ memo = MemoInit
        /\ act = [name |-> "Init"]
        /\ ret = [class |-> "ok", val |-> <<>>]
        /\ depth = 0

Ret(cls, val) == [class |-> cls, val |-> val]
OkOrVE(b) == IF b THEN "ok" ELSE "ValueError"

(* common shape of a step *)
Step(a, h2, r) ==
  /\ heap' = h2 /\ act' = a /\ ret' = r /\ depth' = depth + 1 /\ UNCHANGED memo

-----------------------------------------------------------------------------
(* KnotVector actions                                                       *)

KvOut(o, r) == IF r.ok THEN [heap EXCEPT ![o] = KvObj(r.kv)] ELSE heap

KvNew ==      \* constructor: heap[o] is "none" before
  \E a \in ArgsOf("KvNew", heap, depth) :
     LET r == IF a.deg = -1 THEN NewKV(a.seq) ELSE NewKVDeg(a.seq, a.deg) IN
     Step([name |-> "KvNew"] @@ a, KvOut(a.obj, r), Ret(OkOrVE(r.ok), <<>>))

KvInsert ==   \* kv.insert(nodes), kv += nodes
  \E a \in ArgsOf("KvInsert", heap, depth) :
     LET r == InsertKV(heap[a.obj].U, a.nodes) IN
     Step([name |-> "KvInsert"] @@ a, KvOut(a.obj, r), Ret(OkOrVE(r.ok), <<>>))

KvRemove ==   \* kv.remove(nodes), kv -= nodes
  \E a \in ArgsOf("KvRemove", heap, depth) :
     LET r == RemoveKV(heap[a.obj].U, a.nodes) IN
     Step([name |-> "KvRemove"] @@ a, KvOut(a.obj, r), Ret(OkOrVE(r.ok), <<>>))

KvShift ==
  \E a \in ArgsOf("KvShift", heap, depth) :
     LET r == ShiftKV(heap[a.obj].U, a.by) IN
     Step([name |-> "KvShift"] @@ a, KvOut(a.obj, r), Ret("ok", <<>>))

KvScale ==    \* non-positive factor: rejected with some exception
  \E a \in ArgsOf("KvScale", heap, depth) :
     LET r == ScaleKV(heap[a.obj].U, a.by) IN
     Step([name |-> "KvScale"] @@ a, KvOut(a.obj, r), Ret(IF r.ok THEN "ok" ELSE "Error", <<>>))

KvNormalize ==
  \E a \in ArgsOf("KvNormalize", heap, depth) :
     LET r == NormalizeKV(heap[a.obj].U) IN
     Step([name |-> "KvNormalize"] @@ a, KvOut(a.obj, r), Ret("ok", <<>>))

KvSetDegree ==
  \E a \in ArgsOf("KvSetDegree", heap, depth) :
     LET r == SetDegreeKV(heap[a.obj].U, a.deg) IN
     Step([name |-> "KvSetDegree"] @@ a, KvOut(a.obj, r), Ret(OkOrVE(r.ok), <<>>))

KvIOr ==      \* kv |= other   (other given by value)
  \E a \in ArgsOf("KvIOr", heap, depth) :
     LET r == UnionKV(heap[a.obj].U, a.other) IN
     Step([name |-> "KvIOr"] @@ a, KvOut(a.obj, r), Ret(OkOrVE(r.ok), <<>>))

KvIAnd ==     \* kv &= other
  \E a \in ArgsOf("KvIAnd", heap, depth) :
     LET r == InterKV(heap[a.obj].U, a.other) IN
     Step([name |-> "KvIAnd"] @@ a, KvOut(a.obj, r), Ret(OkOrVE(r.ok), <<>>))

KvOr ==       \* pure: returns a new vector, operands untouched
  \E a \in ArgsOf("KvOr", heap, depth) :
     LET r == UnionKV(heap[a.obj].U, a.other) IN
     Step([name |-> "KvOr"] @@ a, heap, Ret(OkOrVE(r.ok), IF r.ok THEN r.kv ELSE <<>>))

KvAnd ==
  \E a \in ArgsOf("KvAnd", heap, depth) :
     LET r == InterKV(heap[a.obj].U, a.other) IN
     Step([name |-> "KvAnd"] @@ a, heap, Ret(OkOrVE(r.ok), IF r.ok THEN r.kv ELSE <<>>))

KvSplit ==    \* pure: returns the sub-vectors
  \E a \in ArgsOf("KvSplit", heap, depth) :
     LET U == heap[a.obj].U
         ok == \A i \in DOMAIN a.nodes : Valid(U, a.nodes[i]) IN
     Step([name |-> "KvSplit"] @@ a, heap,
          Ret(OkOrVE(ok), IF ok THEN (IF a.nodes = <<>> THEN <<U>> ELSE SplitKV(U, a.nodes)) ELSE <<>>))

KvConvert ==  \* kv.convert(cls): same knots in another number class; int only if every knot is integral
  \E a \in ArgsOf("KvConvert", heap, depth) :
     LET U  == heap[a.obj].U
         ok == a.cls # "int" \/ \A i \in DOMAIN U : U[i][2] = 1 IN
     Step([name |-> "KvConvert"] @@ a, heap, Ret(OkOrVE(ok), <<>>))

(* kv + nodes, kv - nodes, kv + s, kv - s, kv * s, s * kv, kv / s: a NEW vector with the value the in-place form   *)
(* would give; the receiver keeps its value whatever the outcome                                                 *)
KvValueOp ==
  \E a \in ArgsOf("KvValueOp", heap, depth) :
     LET U == heap[a.obj].U
         r == CASE a.op = "add_nodes" -> InsertKV(U, a.nodes)
                [] a.op = "sub_nodes" -> RemoveKV(U, a.nodes)
                [] a.op = "add"       -> ShiftKV(U, a.by)
                [] a.op = "sub"       -> ShiftKV(U, Neg(a.by))
                [] a.op \in {"mul", "rmul"} -> ScaleKV(U, a.by)
                [] a.op = "div"       -> IF IsZero(a.by) THEN Refuse(U) ELSE ScaleKV(U, Inv(a.by))
     IN Step([name |-> "KvValueOp"] @@ a, heap,
             Ret(IF r.ok THEN "ok" ELSE IF a.op \in {"add_nodes", "sub_nodes"} THEN "ValueError" ELSE "Error",
                 IF r.ok THEN r.kv ELSE <<>>))

(* kv == x, kv != x: by value; x may be a vector, a plain list, or something that is no knot vector at all (False) *)
KvEq ==
  \E a \in ArgsOf("KvEq", heap, depth) :
     Step([name |-> "KvEq"] @@ a, heap, Ret("ok", heap[a.obj].U = a.seq))

KvCopy ==     \* copy is equal and independent (the harness mutates the copy)
  \E a \in ArgsOf("KvCopy", heap, depth) :
     Step([name |-> "KvCopy"] @@ a, heap, Ret("ok", heap[a.obj].U))

(* queries: answers for every node of a grid, outside nodes raise ValueError *)
QueryRow(U, u) ==
  IF Valid(U, u) THEN [u |-> u, valid |-> TRUE,  span |-> Span(U, u), mult |-> Mult(U, u)]
  ELSE               [u |-> u, valid |-> FALSE, span |-> -1, mult |-> -1]
KvView(U) == [deg |-> Deg(U), npts |-> Npts(U), knots |-> Knots(U), limits |-> Limits(U)]

-----------------------------------------------------------------------------
(* Curve actions                                                            *)

CvOut(o, c) == [heap EXCEPT ![o] = CvObj(c)]

CvEval ==     \* curve(u), curve([u1..uk]); any node outside  =>  ValueError
  \E a \in ArgsOf("CvEval", heap, depth) :
     LET c  == AsCurve(heap[a.obj])
         ok == \A i \in DOMAIN a.nodes : Valid(c.U, a.nodes[i]) IN
     Step([name |-> "CvEval"] @@ a, heap,
          Ret(OkOrVE(ok), IF ok THEN [i \in DOMAIN a.nodes |-> Eval(c, a.nodes[i])] ELSE <<>>))

(* Function(U)[:, j](u): the code reports npts rows; row i is N_{i,j}        *)
FnBasis ==
  \E a \in ArgsOf("FnBasis", heap, depth) :
     LET U == heap[a.obj].U
         W == a.weights
         row == IF W = <<>> THEN [i \in 1..(Len(U) - a.j - 1) |-> NN(U, LastSpan(U), i - 1, a.j, a.u)]
                ELSE LET b == [i \in 1..Npts(U) |-> NN(U, LastSpan(U), i - 1, a.j, a.u)]
                         den == Dot(b, W)
                     IN [i \in 1..Npts(U) |-> Div(Mul(W[i], b[i]), den)]
     IN Step([name |-> "FnBasis"] @@ a, heap, Ret("ok", row))

(* knot insertion: U' = sorted multiset union, same function, else ValueError *)
InsertGuard(U, nodes) ==
  /\ \A i \in DOMAIN nodes : Valid(U, nodes[i])
  /\ LET V == SortedUnion(U, nodes) IN IsKnotVector(V) /\ Deg(V) = Deg(U)

CvKnotInsert ==
  \E a \in ArgsOf("CvKnotInsert", heap, depth) :
     LET c  == AsCurve(heap[a.obj])
         ok == InsertGuard(c.U, a.nodes) IN
     Step([name |-> "CvKnotInsert"] @@ a,
          IF ok THEN CvOut(a.obj, Refine(c, SortedUnion(c.U, a.nodes))) ELSE heap,
          Ret(OkOrVE(ok), <<>>))

(* degree elevation by t >= 1 *)
CvDegreeIncrease ==
  \E a \in ArgsOf("CvDegreeIncrease", heap, depth) :
     LET c  == AsCurve(heap[a.obj])
         ok == a.times >= 1
         V  == SetDegreeKV(c.U, Deg(c.U) + a.times).kv IN
     Step([name |-> "CvDegreeIncrease"] @@ a,
          IF ok THEN CvOut(a.obj, Refine(c, V)) ELSE heap,
          Ret(OkOrVE(ok), <<>>))

(* split: pure; pieces are the curve refined to full multiplicity at the cuts *)
SplitPieces(c, nodes) ==
  LET cs  == Cuts(c.U, nodes)
      p   == Deg(c.U)
      add == Flatten([i \in 1..(Len(cs) - 2) |-> Repeat(cs[i + 1], p + 1 - MultOf(c.U, cs[i + 1]))])
      big == Refine(c, SortedUnion(c.U, add))
      vs  == SplitKV(c.U, nodes)
      start(i) == Span(big.U, cs[i]) - p          \* 0-based index of the first control point
  IN [i \in 1..Len(vs) |->
        LET n == Npts(vs[i]) s == start(i) IN
        Curve(vs[i], [m \in 1..n |-> big.P[s + m]],
              IF c.W = <<>> THEN <<>> ELSE [m \in 1..n |-> big.W[s + m]])]

CvSplit ==
  \E a \in ArgsOf("CvSplit", heap, depth) :
     LET c  == AsCurve(heap[a.obj])
         ok == \A i \in DOMAIN a.nodes : Valid(c.U, a.nodes[i]) IN
     Step([name |-> "CvSplit"] @@ a, heap,
          Ret(IF ok THEN "ok" ELSE "Error", IF ok THEN SplitPieces(c, a.nodes) ELSE <<>>))

(* split seen as a state change: a := piece i, b := piece i+1 (feeds the join) *)
CvSplitTake ==
  \E a \in ArgsOf("CvSplitTake", heap, depth) :
     LET c  == AsCurve(heap[a.obj])
         ps == SplitPieces(c, a.nodes) IN
     Step([name |-> "CvSplitTake"] @@ a,
          [heap EXCEPT ![a.obj] = CvObj(ps[a.i]), !["b"] = CvObj(ps[a.i + 1])], Ret("ok", <<>>))

(* ---- operations judged relationally (module Sem) ------------------------- *)
(* ret.rel tells the harness how the observed result is to be judged:          *)
(*   "exact"  the post-state is unique: compare it with the spec's, bit for bit *)
(*   "sem"    several representations / outcomes are allowed: the observed      *)
(*            event goes to Trace.tla, which evaluates the clauses of Sem.tla   *)
(* For "sem" transitions whose result the model does not construct the heap is  *)
(* left unchanged (an abstraction; such transitions are leaves of the search).  *)
RetRel(cls, val, rel) == [class |-> cls, val |-> val, rel |-> rel]

(* split at any number of nodes and join ALL the pieces back, left to right: p1 | p2 | ... | pk is the curve again *)
(* (as a function; the junctions may keep extra knots).  Judged as a SameFunction event.                          *)
CvSplitJoin ==
  \E a \in ArgsOf("CvSplitJoin", heap, depth) :
     Step([name |-> "CvSplitJoin"] @@ a, heap, RetRel("ok", Len(SplitPieces(AsCurve(heap[a.obj]), a.nodes)), "sem"))


CvKnotRemove ==
  \E a \in ArgsOf("CvKnotRemove", heap, depth) :
     LET c == AsCurve(heap[a.obj]) IN
     IF ~RemoveRequestValid(c, a.nodes)
     THEN Step([name |-> "CvKnotRemove"] @@ a, heap, RetRel("Error", <<>>, "exact"))
     ELSE LET V == RemoveKV(c.U, a.nodes).kv IN
          IF Representable(c, V)
          THEN Step([name |-> "CvKnotRemove"] @@ a, CvOut(a.obj, Coarsen(c, V)),
                    RetRel("ok", <<>>, IF c.W = <<>> THEN "exact" ELSE "sem"))
          ELSE Step([name |-> "CvKnotRemove"] @@ a, heap,
                    RetRel(IF a.tol[1] = "none" THEN "ok" ELSE "any", <<>>, "sem"))

CvDegreeDecrease ==
  \E a \in ArgsOf("CvDegreeDecrease", heap, depth) :
     LET c == AsCurve(heap[a.obj])
         r == SetDegreeKV(c.U, Deg(c.U) - a.times) IN
     IF a.times < 1 \/ ~r.ok
     THEN Step([name |-> "CvDegreeDecrease"] @@ a, heap, RetRel("Error", <<>>, "exact"))
     ELSE IF Representable(c, r.kv)
          THEN Step([name |-> "CvDegreeDecrease"] @@ a, CvOut(a.obj, Coarsen(c, r.kv)),
                    RetRel("ok", <<>>, IF c.W = <<>> THEN "exact" ELSE "sem"))
          ELSE Step([name |-> "CvDegreeDecrease"] @@ a, heap,
                    RetRel(IF a.tol[1] = "none" THEN "ok" ELSE "any", <<>>, "sem"))

(* clean family: polynomial curves reach the unique minimal form *)
CvClean ==
  \E a \in ArgsOf("CvClean", heap, depth) :
     LET c == AsCurve(heap[a.obj])
         d == CASE a.which = "knot"   -> KnotMinimal(c)
                [] a.which = "degree" -> LowerDegree(c)
                [] OTHER              -> Minimal(c) IN
     Step([name |-> "CvClean"] @@ a, CvOut(a.obj, d), RetRel("ok", <<>>, IF c.W = <<>> THEN "exact" ELSE "sem"))

(* A | B, B given by value; pure *)
CvJoin ==
  \E a \in ArgsOf("CvJoin", heap, depth) :
     LET A == AsCurve(heap[a.obj]) B == a.other IN
     IF Umax(A.U) # Umin(B.U)
     THEN Step([name |-> "CvJoin"] @@ a, heap, RetRel("ValueError", <<>>, "exact"))
     ELSE Step([name |-> "CvJoin"] @@ a, heap,
               IF A.W = <<>> /\ B.W = <<>> THEN RetRel("ok", JoinResult(A, B), "exact")
               ELSE RetRel("ok", <<>>, "sem"))

(* binary arithmetic with another curve given by value; pure; result judged pointwise *)
CvArith ==
  \E a \in ArgsOf("CvArith", heap, depth) :
     LET A == AsCurve(heap[a.obj]) B == a.other IN
     Step([name |-> "CvArith"] @@ a, heap,
          RetRel(IF Limits(A.U) = Limits(B.U) THEN "ok" ELSE "ValueError", <<>>, "sem"))

CvScalar ==
  \E a \in ArgsOf("CvScalar", heap, depth) :
     Step([name |-> "CvScalar"] @@ a, heap, RetRel("ok", <<>>, "sem"))

(* A == B, A != B; other given by value ("notcurve" for a non-curve operand) *)
CvEq ==
  \E a \in ArgsOf("CvEq", heap, depth) :
     LET A == AsCurve(heap[a.obj]) IN
     Step([name |-> "CvEq"] @@ a, heap,
          RetRel("ok", IF a.other = NotCurve THEN FALSE ELSE EqValue(A, a.other), "exact"))

CvCopy ==
  \E a \in ArgsOf("CvCopy", heap, depth) :
     Step([name |-> "CvCopy"] @@ a, heap, RetRel("ok", heap[a.obj], "exact"))

CvFraction ==     \* numerator and denominator splines
  \E a \in ArgsOf("CvFraction", heap, depth) :
     LET c == AsCurve(heap[a.obj]) IN
     Step([name |-> "CvFraction"] @@ a, heap,
          RetRel("ok", IF c.W = <<>> THEN <<Poly(c.U, c.P)>> ELSE <<Poly(c.U, Homog(c)), Poly(c.U, c.W)>>, "exact"))

CvSetCtrlpoints ==   \* wrong count => ValueError, unchanged
  \E a \in ArgsOf("CvSetCtrlpoints", heap, depth) :
     LET c == AsCurve(heap[a.obj]) ok == Len(a.points) = Npts(c.U) IN
     Step([name |-> "CvSetCtrlpoints"] @@ a,
          IF ok THEN CvOut(a.obj, Curve(c.U, a.points, c.W)) ELSE heap, RetRel(OkOrVE(ok), <<>>, "exact"))

CvSetWeights ==      \* curve.weights = W : positive weights of the right length, else rejected and unchanged
  \E a \in ArgsOf("CvSetWeights", heap, depth) :
     LET c  == AsCurve(heap[a.obj])
         ok == Len(a.weights) = Npts(c.U) /\ \A i \in DOMAIN a.weights : Sign(a.weights[i]) > 0 IN
     Step([name |-> "CvSetWeights"] @@ a,
          IF ok THEN CvOut(a.obj, Curve(c.U, c.P, a.weights)) ELSE heap, RetRel(IF ok THEN "ok" ELSE "Error", <<>>, "exact"))

(* curve.apply(V, M): the control points (homogeneous ones when there are weights) are multiplied by the matrix M and *)
(* the knot vector is replaced by V.  The library makes no promise about the function - only that the result is a       *)
(* consistent curve - and a matrix or vector of the wrong shape is refused WITHOUT touching the curve                   *)
MatVec(M, x) == [i \in 1..Len(M) |-> Dot(M[i], x)]
CvApply ==
  \E a \in ArgsOf("CvApply", heap, depth) :
     LET c  == AsCurve(heap[a.obj]) M == a.matrix V == a.kv
         ok == /\ Len(M) = Npts(V) /\ \A i \in 1..Len(M) : Len(M[i]) = Npts(c.U)
               /\ (c.W # <<>> => \A i \in 1..Len(M) : Sign(Dot(M[i], c.W)) > 0)
         W2 == IF c.W = <<>> THEN <<>> ELSE MatVec(M, c.W)
         P2 == IF c.W = <<>> THEN MatVec(M, c.P)
               ELSE LET h == MatVec(M, [i \in 1..Len(c.P) |-> Mul(c.W[i], c.P[i])]) IN [i \in 1..Len(M) |-> Div(h[i], W2[i])]
     IN Step([name |-> "CvApply"] @@ a, IF ok THEN CvOut(a.obj, Curve(V, P2, W2)) ELSE heap,
             RetRel(IF ok THEN "ok" ELSE "Error", <<>>, "exact"))

CvSetKnotvector ==   \* curve.knotvector = V
  \E a \in ArgsOf("CvSetKnotvector", heap, depth) :
     LET c == AsCurve(heap[a.obj]) V == a.kv IN
     IF Limits(V) # Limits(c.U)
     THEN Step([name |-> "CvSetKnotvector"] @@ a, heap, RetRel("Error", <<>>, "exact"))
     ELSE IF Refines(V, c.U)
     THEN Step([name |-> "CvSetKnotvector"] @@ a, CvOut(a.obj, Refine(c, V)), RetRel("ok", <<>>, "exact"))
     ELSE IF Refines(c.U, V) /\ Representable(c, V)
     THEN Step([name |-> "CvSetKnotvector"] @@ a, CvOut(a.obj, Coarsen(c, V)),
               RetRel("ok", <<>>, IF c.W = <<>> THEN "exact" ELSE "sem"))
     ELSE Step([name |-> "CvSetKnotvector"] @@ a, heap, RetRel("any", <<>>, "sem"))

RECURSIVE SetToSortedPairs(_)
SetToSortedPairs(S) ==
  IF S = {} THEN <<>>
  ELSE LET m == CHOOSE x \in S : \A y \in S : Lt(x[1], y[1]) \/ (x[1] = y[1] /\ Le(x[2], y[2]))
       IN <<m>> \o SetToSortedPairs(S \ {m})

(* ---- generators (C18) ------------------------------------------------------ *)
GenValue(a) ==
  CASE a.kind = "bezier"  -> BezierKV(a.p)
    [] a.kind = "integer" -> IntegerKV(a.p, a.n)
    [] a.kind = "uniform" -> UniformKV(a.p, a.n)
    [] a.kind = "weight"  -> WeightKV(a.p, a.w)
KvGen ==
  \E a \in ArgsOf("KvGen", heap, depth) :
     Step([name |-> "KvGen"] @@ a, [heap EXCEPT ![a.obj] = KvObj(GenValue(a))], Ret("ok", <<>>))

(* ---- calculus (C09, C10) ---------------------------------------------------- *)
(* Derivate(C): pure; ret = table <<u, C'(u)>> on interior points of every span    *)
CvDerivate ==
  \E a \in ArgsOf("CvDerivate", heap, depth) :
     LET c == AsCurve(heap[a.obj])
         S == SeqOfSet(InteriorGrid(c.U, Deg(c.U) + 1)) IN
     Step([name |-> "CvDerivate"] @@ a, heap,
          Ret("ok", [i \in 1..Len(S) |-> <<S[i], IF Deg(c.U) = 0 THEN Zero ELSE DEval(c, S[i])>>]))

(* Integrate.scalar(C) with the default rule: exact *)
CvIntegrate ==
  \E a \in ArgsOf("CvIntegrate", heap, depth) :
     LET c == AsCurve(heap[a.obj]) IN
     Step([name |-> "CvIntegrate"] @@ a, heap, Ret("ok", IntegralClosedForm(c)))

(* Integrate.function(U, u -> u^k, method, nnodes) with k < nnodes: exact integral of the monomial *)
IntegrateFn ==
  \E a \in ArgsOf("IntegrateFn", heap, depth) :
     LET U == heap[a.obj].U IN
     Step([name |-> "IntegrateFn"] @@ a, heap,
          Ret("ok", Div(Sub(RPow(Umax(U), a.k + 1), RPow(Umin(U), a.k + 1)), R(a.k + 1))))

(* Integrate.lenght(C, g, method, nnodes) of a polyline with the weight g(u) = u^k: the speed is constant on every   *)
(* span, so the value is  sum_i |segment_i| * (mean of u^k over span i) * ... ; ret = <<squared length of segment i, *)
(* integral of u^k over span i divided by the span length>> (the harness takes the roots: lengths are irrational)     *)
GeoLength ==
  \E a \in ArgsOf("GeoLength", heap, depth) :
     LET c == a.curve ks == Knots(c.U) IN
     /\ heap' = heap /\ act' = [name |-> "GeoLength"] @@ a /\ depth' = depth + 1 /\ UNCHANGED memo
     /\ ret' = Ret("ok", [i \in 1..(Len(ks) - 1) |->
                   <<Dist2(PX(c, ks[i]), PY(c, ks[i]),
                           LeftLimit(Poly(c.U, c.X), ks[i + 1]), LeftLimit(Poly(c.U, c.Y), ks[i + 1])),
                     Div(Sub(RPow(ks[i + 1], a.k + 1), RPow(ks[i], a.k + 1)), Mul(R(a.k + 1), Sub(ks[i + 1], ks[i])))>>])

(* memo tables of quadrature rules.  fn in {"nodes_closed","nodes_open","nodes_cheby","nodes_gauss", *)
(* "w_closed","w_open","w_cheby","w_gauss"}; the tables only grow, answers depend on (fn, n) only *)
MemoAfter(m, fn, n) ==
  CASE fn \in {"nodes_cheby", "nodes_gauss", "w_closed", "w_open", "w_gauss"} -> [m EXCEPT ![fn] = @ \cup {n}]
    [] fn = "w_cheby" -> IF n \in m["w_cheby"] THEN m
                         ELSE [m EXCEPT !["w_cheby"] = @ \cup {n}, !["nodes_cheby"] = @ \cup {n}]
    [] OTHER -> m
OpenNCWeights(n) ==
  CASE n = 1 -> <<One>>
    [] n = 2 -> <<Half, Half>>
    [] n = 3 -> <<Q(3, 8), Q(1, 4), Q(3, 8)>>
    [] n = 4 -> <<Q(13, 48), Q(11, 48), Q(11, 48), Q(13, 48)>>
    [] n = 5 -> <<Q(275, 1152), Q(100, 1152), Q(402, 1152), Q(100, 1152), Q(275, 1152)>>
OpenNodes(n) == [i \in 1..n |-> Q(2 * i - 1, 2 * n)]
ASSUME \A n \in 1..5 : MomentsExact(OpenNodes(n), OpenNCWeights(n), n)
RuleValue(fn, n) ==
  CASE fn = "nodes_closed" -> NCNodes(n)
    [] fn = "nodes_open"   -> OpenNodes(n)
    [] fn = "w_closed"     -> NCWeights(n)
    [] fn = "w_open"       -> OpenNCWeights(n)
    \* the interpolatory weights computed FROM a given node tuple (IntegratorArray.bezier_integrator_array): for the
    \* equally spaced nodes they are the Newton-Cotes weights again - exactly for Fraction nodes, to rounding for the
    \* same nodes given as floats - and such a request leaves the rule tables alone
    [] fn \in {"interp_closed", "interp_closed_float"} -> NCWeights(n)
    [] fn \in {"interp_open", "interp_open_float"}     -> OpenNCWeights(n)
    [] OTHER               -> <<>>                 \* irrational families: judged numerically by the harness
MemoRequest ==
  \E a \in ArgsOf("MemoRequest", heap, depth) :
     /\ heap' = heap /\ act' = [name |-> "MemoRequest"] @@ a /\ depth' = depth + 1
     /\ memo' = MemoAfter(memo, a.fn, a.n)
     /\ ret' = Ret("ok", RuleValue(a.fn, a.n))

(* ---- fitting (C11, C12): the receiving curve a gets new control points; judged by Sem clauses ----*)
(* the normal equations of the L2 projection of C onto the spline space of V: gram[j][i] = <N_j, N_i>, rhs[i] = <C, N_i>. *)
(* They travel with the transition: when the fitted control points are too large for TLC's integers (a WRONG fit      *)
(* usually is), the harness plugs the observed points into these equations instead of sending them to Trace.tla         *)
NormalEqs(C, V) ==
  LET n == Npts(V) Z == Curve(V, Const(n, Zero), <<>>) IN
  [rhs |-> ResidualMoments(C, Z, V), gram |-> [j \in 1..n |-> ResidualMoments(Curve(V, Unit(n, j), <<>>), Z, V)]]
(* single-span (Bezier) source of degree p and target of degree q on [a, a + h]: the integrals of products of Bernstein   *)
(* polynomials are closed forms, h C(p,i) C(q,j) / ((p+q+1) C(p+q,i+j)), at ANY degree (the quadrature constants of   *)
(* Approx.tla stop at degree 9).  The three tables travel with the transition; the harness forms G Q = b and the error  *)
RECURSIVE Binom(_, _)
Binom(n, k) == IF k = 0 THEN 1 ELSE (Binom(n, k - 1) * (n - k + 1)) \div k
BernInt(p, i, q, j, h) == Mul(h, Q(Binom(p, i) * Binom(q, j), (p + q + 1) * Binom(p + q, i + j)))
BernTable(p, q, h) == [i \in 1..(p + 1) |-> [j \in 1..(q + 1) |-> BernInt(p, i - 1, q, j - 1, h)]]
IsBezierKV(U) == Len(Knots(U)) = 2
BezierNormalEqs(C, V) ==
  LET p == Deg(C.U) q == Deg(V) h == Sub(Umax(V), Umin(V)) IN
  [closed_form |-> TRUE, gram |-> BernTable(q, q, h), cross |-> BernTable(p, q, h), self |-> BernTable(p, p, h)]
CvFitCurve ==
  \E a \in ArgsOf("CvFitCurve", heap, depth) :
     Step([name |-> "CvFitCurve"] @@ a, heap,
          RetRel("ok", IF a.nodes = <<>> /\ heap[a.obj].W = <<>> /\ a.other.W = <<>>
                       THEN (IF IsBezierKV(a.other.U) /\ IsBezierKV(heap[a.obj].U) /\ Deg(a.other.U) + Deg(heap[a.obj].U) > 8
                             THEN BezierNormalEqs(a.other, heap[a.obj].U) ELSE NormalEqs(a.other, heap[a.obj].U))
                       ELSE <<>>, "sem"))
CvFitInRational ==   \* S.fit_curve(q) with S rational and q in S's space: the result is q as a function, error 0
  \E a \in ArgsOf("CvFitInRational", heap, depth) :
     Step([name |-> "CvFitInRational"] @@ a, heap, RetRel("ok", <<>>, "sem"))
CvFitPoints ==
  \E a \in ArgsOf("CvFitPoints", heap, depth) :
     LET ok == Len(a.data) >= Npts(heap[a.obj].U) IN
     Step([name |-> "CvFitPoints"] @@ a, heap, RetRel(IF ok THEN "ok" ELSE "Error", <<>>, "sem"))
CvFitFunction ==    \* fit_function(f) with f = evaluation of a curve of the same space: reproduced exactly
  \E a \in ArgsOf("CvFitFunction", heap, depth) :
     Step([name |-> "CvFitFunction"] @@ a, CvOut(a.obj, a.src), RetRel("ok", <<>>, "exact"))

(* ---- geometry (C19, C20): polylines, exact answers ---------------------------------------------*)
GeoProject ==
  \E a \in ArgsOf("GeoProject", heap, depth) :
     LET r == NearestSet(a.curve, a.px, a.py) IN
     /\ heap' = heap /\ act' = [name |-> "GeoProject"] @@ a /\ depth' = depth + 1 /\ UNCHANGED memo
     /\ ret' = Ret("ok", [d2 |-> r.d2, us |-> r.us])
(* a point ON a planar curve of any degree (rational allowed) is projected onto itself; every returned  *)
(* interior parameter that is not a knot is stationary (checked numerically by the harness)               *)
GeoProjectOn ==
  \E a \in ArgsOf("GeoProjectOn", heap, depth) :
     LET cx == Curve(a.curve.U, a.curve.X, a.curve.W) cy == Curve(a.curve.U, a.curve.Y, a.curve.W) IN
     /\ heap' = heap /\ act' = [name |-> "GeoProjectOn"] @@ a /\ depth' = depth + 1 /\ UNCHANGED memo
     /\ ret' = Ret("ok", [u0 |-> a.u0, px |-> Eval(cx, a.u0), py |-> Eval(cy, a.u0)])

(* two planar curves of any degree: returned pairs must be sound; disjoint bounding boxes of the control *)
(* polygons (convex hull property, positive weights) => the curves do not meet => empty result          *)
CtrlBox(c) == [xmin |-> CHOOSE v \in {c.X[i] : i \in DOMAIN c.X} : \A w \in {c.X[i] : i \in DOMAIN c.X} : Le(v, w),
               xmax |-> CHOOSE v \in {c.X[i] : i \in DOMAIN c.X} : \A w \in {c.X[i] : i \in DOMAIN c.X} : Le(w, v),
               ymin |-> CHOOSE v \in {c.Y[i] : i \in DOMAIN c.Y} : \A w \in {c.Y[i] : i \in DOMAIN c.Y} : Le(v, w),
               ymax |-> CHOOSE v \in {c.Y[i] : i \in DOMAIN c.Y} : \A w \in {c.Y[i] : i \in DOMAIN c.Y} : Le(w, v)]
BoxesDisjoint(A, B) ==
  LET a == CtrlBox(A) b == CtrlBox(B) IN
  Lt(a.xmax, b.xmin) \/ Lt(b.xmax, a.xmin) \/ Lt(a.ymax, b.ymin) \/ Lt(b.ymax, a.ymin)
GeoIntersectCurved ==
  \E a \in ArgsOf("GeoIntersectCurved", heap, depth) :
     /\ heap' = heap /\ act' = [name |-> "GeoIntersectCurved"] @@ a /\ depth' = depth + 1 /\ UNCHANGED memo
     /\ ret' = Ret("ok", [disjoint |-> BoxesDisjoint(a.A, a.B)])

GeoIntersect ==
  \E a \in ArgsOf("GeoIntersect", heap, depth) :
     LET r == Crossings(a.A, a.B) IN
     /\ heap' = heap /\ act' = [name |-> "GeoIntersect"] @@ a /\ depth' = depth + 1 /\ UNCHANGED memo
     /\ ret' = Ret("ok", [inclass |-> r.inclass, pairs |-> SetToSortedPairs(r.pairs)])

-----------------------------------------------------------------------------
Next == /\ depth < MaxDepth
        /\ \/ KvNew \/ KvInsert \/ KvRemove \/ KvShift \/ KvScale \/ KvNormalize
           \/ KvSetDegree \/ KvIOr \/ KvIAnd \/ KvOr \/ KvAnd \/ KvSplit \/ KvCopy \/ KvValueOp \/ KvEq
           \/ CvEval \/ FnBasis \/ CvKnotInsert \/ CvDegreeIncrease \/ CvSplit
           \/ CvKnotRemove \/ CvDegreeDecrease \/ CvClean \/ CvJoin \/ CvArith \/ CvScalar
           \/ CvSplitJoin \/ CvEq \/ CvCopy \/ CvFraction \/ CvSetCtrlpoints \/ CvSetWeights \/ CvSetKnotvector \/ CvApply \/ CvSplitTake \/ KvConvert
           \/ KvGen \/ CvDerivate \/ CvIntegrate \/ MemoRequest \/ CvFitCurve \/ CvFitInRational \/ CvFitPoints \/ CvFitFunction
           \/ GeoProject \/ GeoIntersect \/ IntegrateFn \/ GeoLength \/ GeoProjectOn \/ GeoIntersectCurved

Spec == Init /\ [][Next]_vars

View == <<heap, memo, depth>>

-----------------------------------------------------------------------------
(* Properties                                                               *)

ObjWellFormed(o) ==
  CASE o.kind = "kv" -> IsKnotVector(o.U)
    [] o.kind = "cv" -> ConsistentCurve(AsCurve(o))
    [] OTHER -> TRUE

(* C03 / C15: every reachable object is well formed / consistent            *)
WellFormed == \A o \in DOMAIN heap : ObjWellFormed(heap[o])

(* C03 / C15: a refused operation is a no-op                                *)
FailedIsNoOp == [][ret'.class # "ok" => heap' = heap]_vars

(* C15: an operation on one object never changes any other object of the heap (operands of binary    *)
(* operations are given by value and compared by the harness)                                        *)
OthersUntouched ==
  [][\A o \in DOMAIN heap : (("obj" \in DOMAIN act') /\ o # act'.obj /\ act'.name # "CvSplitTake") => heap'[o] = heap[o]]_vars

(* C04: insertion preserves the function and produces the requested knots   *)
InsertPreserves ==
  [][(act'.name = "CvKnotInsert" /\ ret'.class = "ok") =>
        /\ heap'[act'.obj].U = SortedUnion(heap[act'.obj].U, act'.nodes)
        /\ SameFunction(AsCurve(heap'[act'.obj]), AsCurve(heap[act'.obj]))]_vars

(* C06: elevation raises every multiplicity by t and preserves the function *)
ElevatePreserves ==
  [][(act'.name = "CvDegreeIncrease" /\ ret'.class = "ok") =>
        LET c == AsCurve(heap[act'.obj]) d == AsCurve(heap'[act'.obj]) IN
        /\ Deg(d.U) = Deg(c.U) + act'.times
        /\ \A x \in KnotSet(c.U) : MultOf(d.U, x) = MultOf(c.U, x) + act'.times
        /\ KnotSet(d.U) = KnotSet(c.U)
        /\ SameFunction(d, c)]_vars

(* C07: every piece is clamped on its sub-interval and restricts the curve  *)
SplitRestricts ==
  [][(act'.name = "CvSplit" /\ ret'.class = "ok") =>
        LET c == AsCurve(heap[act'.obj]) ps == ret'.val cs == Cuts(c.U, act'.nodes) IN
        /\ Len(ps) = Len(cs) - 1
        /\ \A i \in 1..Len(ps) :
             /\ ConsistentCurve(ps[i]) /\ Deg(ps[i].U) = Deg(c.U)
             /\ Limits(ps[i].U) = <<cs[i], cs[i + 1]>>
             /\ RestrictsTo(c, ps[i])]_vars

(* C17: U|V is the coarsest common refinement, U&V (equal degrees) the per-knot minimum *)
UnionIsCoarsest ==
  [][(act'.name = "KvOr" /\ ret'.class = "ok") =>
        LET U == heap[act'.obj].U V == act'.other W == ret'.val IN
        /\ Deg(W) = (IF Deg(U) > Deg(V) THEN Deg(U) ELSE Deg(V))
        /\ \A x \in KnotSet(W) \ {Umin(W), Umax(W)} :
              LET W2 == RemoveOne(W, x) IN ~(Refines(W2, U) /\ Refines(W2, V))
        /\ UnionKV(V, U).kv = W /\ UnionKV(W, W).kv = W /\ UnionKV(U, U).kv = U]_vars
InterProps ==
  [][(act'.name = "KvAnd" /\ ret'.class = "ok") =>
        LET U == heap[act'.obj].U V == act'.other W == ret'.val IN
        /\ IsKnotVector(W) /\ Refines(U, W) /\ Refines(V, W)
        /\ \A x \in KnotSet(U) \cup KnotSet(V) :
              MultOf(W, x) = (IF MultOf(U, x) < MultOf(V, x) THEN MultOf(U, x) ELSE MultOf(V, x))
        /\ InterKV(V, U).kv = W /\ InterKV(U, U).kv = U]_vars

(* C18: shift / scale / normalize keep degree, npts and every multiplicity, map every knot affinely *)
AffineProps ==
  [][(act'.name \in {"KvShift", "KvScale", "KvNormalize"} /\ ret'.class = "ok") =>
        LET U == heap[act'.obj].U V == heap'[act'.obj].U IN
        /\ Len(V) = Len(U) /\ Deg(V) = Deg(U) /\ Npts(V) = Npts(U)
        /\ \A i \in DOMAIN U : MultOf(V, V[i]) = MultOf(U, U[i])
        /\ (act'.name = "KvNormalize" => Limits(V) = <<Zero, One>>)
        /\ \E s \in {Div(Sub(Umax(V), Umin(V)), Sub(Umax(U), Umin(U)))} :
              Sign(s) > 0 /\ \A i \in DOMAIN U : V[i] = Add(Umin(V), Mul(s, Sub(U[i], Umin(U))))]_vars

(* C17: | and & results *)
UnionProps ==
  [][(act'.name \in {"KvOr", "KvIOr"} /\ ret'.class = "ok") =>
        LET U == heap[act'.obj].U V == act'.other
            W == IF act'.name = "KvOr" THEN ret'.val ELSE heap'[act'.obj].U IN
        IsKnotVector(W) /\ Refines(W, U) /\ Refines(W, V)]_vars

(* C10: the memo tables only grow and the answer is a function of the key *)
MemoMonotone == [][\A f \in DOMAIN memo : memo[f] \subseteq memo'[f]]_vars
(* C09: the value-based derivative agrees with the control-point formula (oracle cross-check) *)
DerivFormulaAgrees ==
  [][(act'.name = "CvDerivate" /\ heap[act'.obj].W = <<>> /\ Deg(heap[act'.obj].U) >= 1) =>
        \A i \in DOMAIN ret'.val :
           EqT(ret'.val[i][2], DerivFormulaEval(heap[act'.obj].U, heap[act'.obj].P, ret'.val[i][1]))]_vars
(* C10: closed form of the spline integral equals exact quadrature *)
IntegralAgrees ==
  [][act'.name = "CvIntegrate" => EqT(ret'.val, IntegralOf(AsCurve(heap[act'.obj])))]_vars
(* C18: generated vectors *)
GenProps ==
  [][act'.name = "KvGen" =>
        LET U == heap'[act'.obj].U a == act' IN
        /\ IsKnotVector(U) /\ Deg(U) = a.p
        /\ (a.kind \in {"integer", "uniform"} => Npts(U) = a.n)
        /\ (a.kind = "weight" => Npts(U) = a.p + Len(a.w))
        /\ (a.kind = "bezier" => Npts(U) = a.p + 1)
        /\ \A x \in KnotSet(U) \ {Umin(U), Umax(U)} : MultOf(U, x) = 1
        /\ (a.kind \in {"bezier", "uniform"} => Limits(U) = <<Zero, One>>)
        /\ (a.kind \in {"integer", "uniform"} =>
               LET ks == Knots(U) IN \A i \in 1..(Len(ks) - 2) : Sub(ks[i + 1], ks[i]) = Sub(ks[i + 2], ks[i + 1]))
        /\ (a.kind = "weight" => LET ks == Knots(U) IN \A i \in 1..Len(a.w) : Sub(ks[i + 1], ks[i]) = a.w[i])]_vars

(* values of the model's own result on the sample set the clauses need *)
SpecObsOn(ks, deg, d) ==
  LET S == SeqOfSet(SamplePts(ks, deg)) IN
  [i \in 1..Len(S) |-> <<S[i], IF Valid(d.U, S[i]) THEN Eval(d, S[i]) ELSE NaR>>]
SpecObs3(c, b, d) == SpecObsOn(SeqOfSet(KnotSet(c.U) \cup KnotSet(b.U) \cup KnotSet(d.U)),
                               Deg(c.U) + Deg(b.U) + Deg(d.U), d)
SpecObs(c, d) == SpecObsOn(CommonBreaks(c.U, d.U), Deg(c.U) + Deg(d.U), d)

(* C05 / C06: the model's own removal / reduction transitions satisfy the relational clauses *)
ObsClean(dv) == \A i \in DOMAIN dv : ~IsNaR(dv[i][2])      \* the model's own arithmetic stayed in range
ExpClean(c, dv) == \A i \in DOMAIN dv : Valid(c.U, dv[i][1]) => ~IsNaR(Eval(c, dv[i][1]))
RemoveExactOrRefused ==
  [][(act'.name = "CvKnotRemove" /\ ret'.class \in {"ok", "Error"} /\ act'.tol[1] # "none"
        /\ ObsClean(SpecObs(AsCurve(heap[act'.obj]), AsCurve(heap'[act'.obj])))
        /\ ExpClean(AsCurve(heap[act'.obj]), SpecObs(AsCurve(heap[act'.obj]), AsCurve(heap'[act'.obj])))) =>
        KnotRemoveClauses(AsCurve(heap[act'.obj]), act'.nodes, act'.tol,
                          IF ret'.class = "ok" THEN "ok" ELSE "ValueError", AsCurve(heap'[act'.obj]),
                          SpecObs(AsCurve(heap[act'.obj]), AsCurve(heap'[act'.obj]))) = {}]_vars
ReduceExactOrRefused ==
  [][(act'.name = "CvDegreeDecrease" /\ ret'.class \in {"ok", "Error"} /\ act'.tol[1] # "none"
        /\ ObsClean(SpecObs(AsCurve(heap[act'.obj]), AsCurve(heap'[act'.obj])))
        /\ ExpClean(AsCurve(heap[act'.obj]), SpecObs(AsCurve(heap[act'.obj]), AsCurve(heap'[act'.obj])))) =>
        DegreeDecreaseClauses(AsCurve(heap[act'.obj]), act'.times, act'.tol,
                          IF ret'.class = "ok" THEN "ok" ELSE "ValueError", AsCurve(heap'[act'.obj]),
                          SpecObs(AsCurve(heap[act'.obj]), AsCurve(heap'[act'.obj]))) = {}]_vars
(* C14: clean keeps the function, is idempotent, and ends in the minimal form *)
CleanProps ==
  [][act'.name = "CvClean" =>
        LET c == AsCurve(heap[act'.obj]) d == AsCurve(heap'[act'.obj]) IN
        /\ SameFunction(d, c)
        /\ (act'.which = "all" /\ c.W = <<>>) => (Minimal(d) = d)]_vars
(* C07: the join restricts to both operands *)
JoinRestores ==
  [][(act'.name = "CvJoin" /\ ret'.class = "ok" /\ ret'.rel = "exact"
        /\ ObsClean(SpecObs3(AsCurve(heap[act'.obj]), act'.other, ret'.val))
        /\ ExpClean(AsCurve(heap[act'.obj]), SpecObs3(AsCurve(heap[act'.obj]), act'.other, ret'.val))
        /\ ExpClean(act'.other, SpecObs3(AsCurve(heap[act'.obj]), act'.other, ret'.val))) =>
        JoinClauses(AsCurve(heap[act'.obj]), act'.other, "ok", ret'.val,
                    SpecObs3(AsCurve(heap[act'.obj]), act'.other, ret'.val)) = {}]_vars

-----------------------------------------------------------------------------
(* transition log: one JSON object per explored transition                  *)
ParamGridQ(U) == SamplePts(Knots(U), 0) \cup {Sub(Umin(U), One), Add(Umax(U), Half)}
ObjQueries(o) ==
  IF o.kind = "kv" THEN [view |-> KvView(o.U),
                         q |-> LET S == SeqOfSet(ParamGridQ(o.U)) IN [i \in 1..Len(S) |-> QueryRow(o.U, S[i])]]
  ELSE [view |-> <<>>, q |-> <<>>]
(* ovf: module Rat raised its overflow flag on this worker since the previous logged transition, i.e. some   *)
(* arithmetic behind this transition (or behind a discarded candidate before it) left TLC's 32 bits: the       *)
(* harness skips the transition (counted), because even a boolean expectation may rest on a NaR.               *)
Log == LET o == OvfSeen(depth) IN
       /\ PrintT(ToJson([d |-> depth', pre |-> heap, act |-> act', ret |-> ret', post |-> heap', mpre |-> memo, mpost |-> memo',
                         obs |-> [ob \in DOMAIN heap' |-> ObjQueries(heap'[ob])], ovf |-> o]))
       /\ OvfReset(depth)
=============================================================================
