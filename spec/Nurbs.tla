------------------------------- MODULE Nurbs -------------------------------
(* The state machine of compmec/nurbs.                                      *)
(*                                                                          *)
(* State: a small heap of objects (KnotVector objects and Curve objects,    *)
(* each fully described by the values the public API exposes) plus the      *)
(* module-level memo tables of quadrature rules.  Every public method is    *)
(* one atomic action; its success and its refusal are separate outcomes of  *)
(* the action, the refusal leaving the heap unchanged.  `act' and `ret' are *)
(* observation variables (what was called, what came back); they are hidden *)
(* from the fingerprint by VIEW and printed by the ACTION_CONSTRAINT Log so *)
(* that every transition TLC explores becomes one test of the real code.    *)
(*                                                                          *)
(* The argument universes are supplied by the MC_* instance through the     *)
(* constant operator ArgsOf(name, heap).                                    *)
EXTENDS Universe, Json

CONSTANTS ArgsOf(_, _),      \* action name, heap  ->  set of argument records
          InitHeaps,         \* set of initial heaps
          MaxDepth

VARIABLES heap, memo, act, ret, depth
vars == <<heap, memo, act, ret, depth>>

KvObj(U)  == [kind |-> "kv", U |-> U]
CvObj(c)  == [kind |-> "cv", U |-> c.U, P |-> c.P, W |-> c.W]
NoObj     == [kind |-> "none"]
AsCurve(o) == Curve(o.U, o.P, o.W)

Families == {"closed", "open", "cheby", "gauss"}
MemoInit == [f \in {"nodes_cheby", "nodes_gauss", "w_closed", "w_open", "w_cheby", "w_gauss"} |->
               CASE f = "nodes_cheby" -> {1} [] f = "nodes_gauss" -> {1}
                 [] f = "w_closed" -> {2, 3, 4} [] OTHER -> {1, 2, 3}]

Init == /\ heap \in InitHeaps
        /\ memo = MemoInit
        /\ act = [name |-> "Init"]
        /\ ret = [class |-> "ok", val |-> <<>>]
        /\ depth = 0

Ret(cls, val) == [class |-> cls, val |-> val]
OkOrVE(b) == IF b THEN "ok" ELSE "ValueError"

(* common shape of a step *)
Step(a, h2, r) ==
  /\ heap' = h2 /\ act' = a /\ ret' = r /\ depth' = depth + 1 /\ UNCHANGED memo

-----------------------------------------------------------------------------
(* KnotVector actions                                                       *)

KvOut(o, r) == IF r.ok THEN [heap EXCEPT ![o] = KvObj(r.kv)] ELSE heap

KvNew ==      \* constructor: heap[o] is "none" before
  \E a \in ArgsOf("KvNew", heap) :
     LET r == IF a.deg = -1 THEN NewKV(a.seq) ELSE NewKVDeg(a.seq, a.deg) IN
     Step([name |-> "KvNew"] @@ a, KvOut(a.obj, r), Ret(OkOrVE(r.ok), <<>>))

KvInsert ==   \* kv.insert(nodes), kv += nodes
  \E a \in ArgsOf("KvInsert", heap) :
     LET r == InsertKV(heap[a.obj].U, a.nodes) IN
     Step([name |-> "KvInsert"] @@ a, KvOut(a.obj, r), Ret(OkOrVE(r.ok), <<>>))

KvRemove ==   \* kv.remove(nodes), kv -= nodes
  \E a \in ArgsOf("KvRemove", heap) :
     LET r == RemoveKV(heap[a.obj].U, a.nodes) IN
     Step([name |-> "KvRemove"] @@ a, KvOut(a.obj, r), Ret(OkOrVE(r.ok), <<>>))

KvShift ==
  \E a \in ArgsOf("KvShift", heap) :
     LET r == ShiftKV(heap[a.obj].U, a.by) IN
     Step([name |-> "KvShift"] @@ a, KvOut(a.obj, r), Ret("ok", <<>>))

KvScale ==    \* non-positive factor: rejected with some exception
  \E a \in ArgsOf("KvScale", heap) :
     LET r == ScaleKV(heap[a.obj].U, a.by) IN
     Step([name |-> "KvScale"] @@ a, KvOut(a.obj, r), Ret(IF r.ok THEN "ok" ELSE "Error", <<>>))

KvNormalize ==
  \E a \in ArgsOf("KvNormalize", heap) :
     LET r == NormalizeKV(heap[a.obj].U) IN
     Step([name |-> "KvNormalize"] @@ a, KvOut(a.obj, r), Ret("ok", <<>>))

KvSetDegree ==
  \E a \in ArgsOf("KvSetDegree", heap) :
     LET r == SetDegreeKV(heap[a.obj].U, a.deg) IN
     Step([name |-> "KvSetDegree"] @@ a, KvOut(a.obj, r), Ret(OkOrVE(r.ok), <<>>))

KvIOr ==      \* kv |= other   (other given by value)
  \E a \in ArgsOf("KvIOr", heap) :
     LET r == UnionKV(heap[a.obj].U, a.other) IN
     Step([name |-> "KvIOr"] @@ a, KvOut(a.obj, r), Ret(OkOrVE(r.ok), <<>>))

KvIAnd ==     \* kv &= other
  \E a \in ArgsOf("KvIAnd", heap) :
     LET r == InterKV(heap[a.obj].U, a.other) IN
     Step([name |-> "KvIAnd"] @@ a, KvOut(a.obj, r), Ret(OkOrVE(r.ok), <<>>))

KvOr ==       \* pure: returns a new vector, operands untouched
  \E a \in ArgsOf("KvOr", heap) :
     LET r == UnionKV(heap[a.obj].U, a.other) IN
     Step([name |-> "KvOr"] @@ a, heap, Ret(OkOrVE(r.ok), IF r.ok THEN r.kv ELSE <<>>))

KvAnd ==
  \E a \in ArgsOf("KvAnd", heap) :
     LET r == InterKV(heap[a.obj].U, a.other) IN
     Step([name |-> "KvAnd"] @@ a, heap, Ret(OkOrVE(r.ok), IF r.ok THEN r.kv ELSE <<>>))

KvSplit ==    \* pure: returns the sub-vectors
  \E a \in ArgsOf("KvSplit", heap) :
     LET U == heap[a.obj].U
         ok == \A i \in DOMAIN a.nodes : Valid(U, a.nodes[i]) IN
     Step([name |-> "KvSplit"] @@ a, heap,
          Ret(OkOrVE(ok), IF ok THEN (IF a.nodes = <<>> THEN <<U>> ELSE SplitKV(U, a.nodes)) ELSE <<>>))

KvCopy ==     \* copy is equal and independent (the harness mutates the copy)
  \E a \in ArgsOf("KvCopy", heap) :
     Step([name |-> "KvCopy"] @@ a, heap, Ret("ok", heap[a.obj].U))

(* queries: answers for every node of a grid, outside nodes raise ValueError *)
QueryRow(U, u) ==
  IF Valid(U, u) THEN [u |-> u, valid |-> TRUE,  span |-> Span(U, u), mult |-> Mult(U, u)]
  ELSE               [u |-> u, valid |-> FALSE, span |-> -1, mult |-> -1]
KvView(U) == [deg |-> Deg(U), npts |-> Npts(U), knots |-> Knots(U), limits |-> Limits(U)]

-----------------------------------------------------------------------------
(* Curve actions                                                            *)

CvOut(o, c) == [heap EXCEPT ![o] = CvObj(c)]

CvEval ==     \* curve(u), curve([u1..uk]); any node outside  =>  ValueError
  \E a \in ArgsOf("CvEval", heap) :
     LET c  == AsCurve(heap[a.obj])
         ok == \A i \in DOMAIN a.nodes : Valid(c.U, a.nodes[i]) IN
     Step([name |-> "CvEval"] @@ a, heap,
          Ret(OkOrVE(ok), IF ok THEN [i \in DOMAIN a.nodes |-> Eval(c, a.nodes[i])] ELSE <<>>))

(* Function(U)[:, j](u): the code reports npts rows; row i is N_{i,j}        *)
FnBasis ==
  \E a \in ArgsOf("FnBasis", heap) :
     LET U == heap[a.obj].U
         W == a.weights
         row == IF W = <<>> THEN [i \in 1..(Len(U) - a.j - 1) |-> NN(U, LastSpan(U), i - 1, a.j, a.u)]
                ELSE LET b == [i \in 1..Npts(U) |-> NN(U, LastSpan(U), i - 1, a.j, a.u)]
                         den == Dot(b, W)
                     IN [i \in 1..Npts(U) |-> Div(Mul(W[i], b[i]), den)]
     IN Step([name |-> "FnBasis"] @@ a, heap, Ret("ok", row))

(* knot insertion: U' = sorted multiset union, same function, else ValueError *)
InsertGuard(U, nodes) ==
  /\ \A i \in DOMAIN nodes : Valid(U, nodes[i])
  /\ LET V == SortedUnion(U, nodes) IN IsKnotVector(V) /\ Deg(V) = Deg(U)

CvKnotInsert ==
  \E a \in ArgsOf("CvKnotInsert", heap) :
     LET c  == AsCurve(heap[a.obj])
         ok == InsertGuard(c.U, a.nodes) IN
     Step([name |-> "CvKnotInsert"] @@ a,
          IF ok THEN CvOut(a.obj, Refine(c, SortedUnion(c.U, a.nodes))) ELSE heap,
          Ret(OkOrVE(ok), <<>>))

(* degree elevation by t >= 1 *)
CvDegreeIncrease ==
  \E a \in ArgsOf("CvDegreeIncrease", heap) :
     LET c  == AsCurve(heap[a.obj])
         ok == a.times >= 1
         V  == SetDegreeKV(c.U, Deg(c.U) + a.times).kv IN
     Step([name |-> "CvDegreeIncrease"] @@ a,
          IF ok THEN CvOut(a.obj, Refine(c, V)) ELSE heap,
          Ret(OkOrVE(ok), <<>>))

(* split: pure; pieces are the curve refined to full multiplicity at the cuts *)
SplitPieces(c, nodes) ==
  LET cs  == Cuts(c.U, nodes)
      p   == Deg(c.U)
      add == Flatten([i \in 1..(Len(cs) - 2) |-> Repeat(cs[i + 1], p + 1 - MultOf(c.U, cs[i + 1]))])
      big == Refine(c, SortedUnion(c.U, add))
      vs  == SplitKV(c.U, nodes)
      start(i) == Span(big.U, cs[i]) - p          \* 0-based index of the first control point
  IN [i \in 1..Len(vs) |->
        LET n == Npts(vs[i]) s == start(i) IN
        Curve(vs[i], [m \in 1..n |-> big.P[s + m]],
              IF c.W = <<>> THEN <<>> ELSE [m \in 1..n |-> big.W[s + m]])]

CvSplit ==
  \E a \in ArgsOf("CvSplit", heap) :
     LET c  == AsCurve(heap[a.obj])
         ok == \A i \in DOMAIN a.nodes : Valid(c.U, a.nodes[i]) IN
     Step([name |-> "CvSplit"] @@ a, heap,
          Ret(IF ok THEN "ok" ELSE "Error", IF ok THEN SplitPieces(c, a.nodes) ELSE <<>>))

-----------------------------------------------------------------------------
Next == /\ depth < MaxDepth
        /\ \/ KvNew \/ KvInsert \/ KvRemove \/ KvShift \/ KvScale \/ KvNormalize
           \/ KvSetDegree \/ KvIOr \/ KvIAnd \/ KvOr \/ KvAnd \/ KvSplit \/ KvCopy
           \/ CvEval \/ FnBasis \/ CvKnotInsert \/ CvDegreeIncrease \/ CvSplit

Spec == Init /\ [][Next]_vars

View == <<heap, memo, depth>>

-----------------------------------------------------------------------------
(* Properties                                                               *)

ObjWellFormed(o) ==
  CASE o.kind = "kv" -> IsKnotVector(o.U)
    [] o.kind = "cv" -> ConsistentCurve(AsCurve(o))
    [] OTHER -> TRUE

(* C03 / C15: every reachable object is well formed / consistent            *)
WellFormed == \A o \in DOMAIN heap : ObjWellFormed(heap[o])

(* C03 / C15: a refused operation is a no-op                                *)
FailedIsNoOp == [][ret'.class # "ok" => heap' = heap]_vars

(* C04: insertion preserves the function and produces the requested knots   *)
InsertPreserves ==
  [][(act'.name = "CvKnotInsert" /\ ret'.class = "ok") =>
        /\ heap'[act'.obj].U = SortedUnion(heap[act'.obj].U, act'.nodes)
        /\ SameFunction(AsCurve(heap'[act'.obj]), AsCurve(heap[act'.obj]))]_vars

(* C06: elevation raises every multiplicity by t and preserves the function *)
ElevatePreserves ==
  [][(act'.name = "CvDegreeIncrease" /\ ret'.class = "ok") =>
        LET c == AsCurve(heap[act'.obj]) d == AsCurve(heap'[act'.obj]) IN
        /\ Deg(d.U) = Deg(c.U) + act'.times
        /\ \A x \in KnotSet(c.U) : MultOf(d.U, x) = MultOf(c.U, x) + act'.times
        /\ KnotSet(d.U) = KnotSet(c.U)
        /\ SameFunction(d, c)]_vars

(* C07: every piece is clamped on its sub-interval and restricts the curve  *)
SplitRestricts ==
  [][(act'.name = "CvSplit" /\ ret'.class = "ok") =>
        LET c == AsCurve(heap[act'.obj]) ps == ret'.val cs == Cuts(c.U, act'.nodes) IN
        /\ Len(ps) = Len(cs) - 1
        /\ \A i \in 1..Len(ps) :
             /\ ConsistentCurve(ps[i]) /\ Deg(ps[i].U) = Deg(c.U)
             /\ Limits(ps[i].U) = <<cs[i], cs[i + 1]>>
             /\ RestrictsTo(c, ps[i])]_vars

(* C17: | and & results *)
UnionProps ==
  [][(act'.name \in {"KvOr", "KvIOr"} /\ ret'.class = "ok") =>
        LET U == heap[act'.obj].U V == act'.other
            W == IF act'.name = "KvOr" THEN ret'.val ELSE heap'[act'.obj].U IN
        IsKnotVector(W) /\ Refines(W, U) /\ Refines(W, V)]_vars

-----------------------------------------------------------------------------
(* transition log: one JSON object per explored transition                  *)
ParamGridQ(U) == SamplePts(Knots(U), 0) \cup {Sub(Umin(U), One), Add(Umax(U), Half)}
ObjQueries(o) ==
  IF o.kind = "kv" THEN [view |-> KvView(o.U),
                         q |-> LET S == SeqOfSet(ParamGridQ(o.U)) IN [i \in 1..Len(S) |-> QueryRow(o.U, S[i])]]
  ELSE [view |-> <<>>, q |-> <<>>]
Log == PrintT(ToJson([d |-> depth', pre |-> heap, act |-> act', ret |-> ret', post |-> heap',
                      obs |-> [o \in DOMAIN heap' |-> ObjQueries(heap'[o])]]))
=============================================================================
