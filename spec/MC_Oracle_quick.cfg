SPECIFICATION Spec
CONSTANTS
  Breaks <- BreaksQ
  Degs <- DegsQ
  MaxNpts = 6
  ExtraNodes <- ExtraQ
INVARIANT WellFormedUniverse
INVARIANT PartitionOfUnity
INVARIANT NonNegative
INVARIANT LocalSupport
INVARIANT EndPoints
INVARIANT SpanBrackets
INVARIANT LeftLimitAgrees
INVARIANT RefinePreserves
INVARIANT RefineRational
INVARIANT CoarsenInverts
INVARIANT CoarsenRefuses
INVARIANT UnionRefinesBoth
INVARIANT UnionIsCoarsest
INVARIANT UnionRepresents
INVARIANT ReparamInvariant
INVARIANT FastEqualsDef
INVARIANT JavaAgreesWithDef
CHECK_DEADLOCK FALSE
