SPECIFICATION Spec
CONSTANTS
  ArgsOf <- MCArgs
  InitHeaps <- MCInit
  MaxDepth = 1
  Acts = {"GeoProject", "GeoProjectOn"}
  MaxP = 1
  MaxExtra = 1
  MemoN = 2
  GeoRich = TRUE

ACTION_CONSTRAINT Log
VIEW View
CHECK_DEADLOCK FALSE
