SPECIFICATION Spec
CONSTANTS
  ArgsOf <- MCArgs
  InitHeaps <- MCInit
  MaxDepth = 1
  Acts = {"KvGen"}
  MaxP = 3
  MaxExtra = 3
  MemoN = 2
  GeoRich = FALSE
PROPERTY GenProps
ACTION_CONSTRAINT Log
VIEW View
CHECK_DEADLOCK FALSE
