SPECIFICATION Spec
CONSTANT NShards = 64
INVARIANT Report
CHECK_DEADLOCK FALSE
