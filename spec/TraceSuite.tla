----------------------------- MODULE TraceSuite -----------------------------
(* Binding B over the repository's own test suite: every top-level public call *)
(* of KnotVector and Curve that the 300 tests make (recorded from outside by    *)
(* harness/recorder.py) is judged here.  Numbers are ranks (see recorder.py):   *)
(* all clauses below are order-theoretic, so the rank map is a homomorphism.    *)
EXTENDS Sem, Json, IOUtils, TLCExt

CONSTANT NShards
Events == ndJsonDeserialize(IOEnv.TRACE_FILE)

VARIABLES shard, idx
vars == <<shard, idx>>
Init == idx = 0 /\ shard \in 0..(NShards - 1)
Next == /\ idx = 0
        /\ \E k \in 1..Len(Events) : k % NShards = shard /\ idx' = k
        /\ UNCHANGED shard
Spec == Init /\ [][Next]_vars

V(s) == [i \in DOMAIN s |-> R(s[i])]              \* rank sequence -> knot vector over Rat

KvClauses(e) ==
  LET pre == V(e.pre) post == V(e.post) arg == V(e.arg) ok == e.cls = "ok" IN
  Fails({<<"post_wellformed", IsKnotVector(post)>>,
         <<"unchanged_on_failure", ~ok => post = pre>>})
  \cup
  (CASE e.op \in {"insert", "iadd"} /\ e.argok /\ ~e.scalar ->
          LET r == InsertKV(pre, arg) IN
          Fails({<<"insert_is_sorted_union", ok => (r.ok /\ post = r.kv)>>,
                 <<"valid_insert_accepted", r.ok => ok>>,
                 <<"invalid_insert_is_ValueError", ~r.ok => e.cls = "ValueError">>})
     [] e.op \in {"remove", "isub"} /\ e.argok /\ ~e.scalar ->
          LET r == RemoveKV(pre, arg) IN
          Fails({<<"remove_is_multiset_difference", ok => (r.ok /\ post = r.kv)>>,
                 <<"valid_remove_accepted", r.ok => ok>>,
                 <<"invalid_remove_is_ValueError", ~r.ok => e.cls = "ValueError">>})
     [] e.op = "affine" \/ (e.op \in {"iadd", "isub"} /\ e.scalar) ->
          Fails({<<"affine_keeps_order_and_multiplicities", ok => e.post = e.pre>>})
     [] e.op = "query" /\ e.argok ->
          LET allvalid == \A i \in DOMAIN arg : Valid(pre, arg[i]) IN
          IF e.name = "valid"
          THEN Fails({<<"valid_iff_inside", ok => (e.ret[1] = 1) = allvalid>>})
          ELSE Fails({<<"outside_raises_ValueError", ~allvalid => e.cls = "ValueError">>,
                      <<"inside_answers", allvalid => ok>>,
                      <<"answers_agree_with_elements",
                          (ok /\ allvalid /\ Len(e.ret) = Len(arg)) =>
                            \A i \in DOMAIN arg :
                               e.ret[i] = (IF e.name = "span" THEN Span(pre, arg[i]) ELSE Mult(pre, arg[i]))>>})
     [] e.op = "binary" /\ e.argok /\ IsKnotVector(arg) ->
          LET r == IF e.name = "__or__" THEN UnionKV(pre, arg) ELSE InterKV(pre, arg) IN
          Fails({<<"binary_result", (ok /\ (e.name = "__or__" \/ Deg(pre) = Deg(arg))) => (r.ok /\ V(e.ret) = r.kv)>>,
                 <<"different_intervals_refused", Limits(pre) # Limits(arg) => ~ok>>})
     [] e.op = "ibinary" /\ e.argok /\ IsKnotVector(arg) ->
          LET r == IF e.name = "__ior__" THEN UnionKV(pre, arg) ELSE InterKV(pre, arg) IN
          Fails({<<"inplace_binary_result", (ok /\ (e.name = "__ior__" \/ Deg(pre) = Deg(arg))) => (r.ok /\ post = r.kv)>>,
                 <<"different_intervals_refused", Limits(pre) # Limits(arg) => ~ok>>})
     [] e.op = "split" /\ e.argok ->
          Fails({<<"split_pieces", (ok /\ \A i \in DOMAIN arg : Valid(pre, arg[i])) =>
                     [i \in DOMAIN e.pieces |-> V(e.pieces[i])] = (IF arg = <<>> THEN <<pre>> ELSE SplitKV(pre, arg))>>})
     [] OTHER -> {})

CvClauses(e) ==
  LET pre == V(e.pre) post == V(e.post) arg == V(e.arg) ok == e.cls = "ok"
      same == e.fp[1] = e.fp[2] IN
  Fails({<<"knotvector_wellformed", IsKnotVector(post)>>,
         <<"ctrlpoints_match_npts", (IsKnotVector(post) /\ e.nP[2] >= 0) => e.nP[2] = Npts(post)>>,
         <<"weights_match_npts", (IsKnotVector(post) /\ e.nW[2] >= 0) => e.nW[2] = Npts(post)>>,
         <<"readable_afterwards", e.nP[2] # -2>>,
         <<"unchanged_on_failure", ~ok => same>>,
         <<"non_mutating_keeps_self", e.op \in {"pure", "split"} => same>>,
         <<"operands_untouched", \A i \in DOMAIN e.ofp : e.ofp[i][1] = e.ofp[i][2]>>})
  \cup
  (CASE e.op = "insert" /\ e.argok /\ ok -> Fails({<<"kv_is_sorted_union", post = SortedUnion(pre, arg)>>})
     [] e.op = "remove" /\ e.argok /\ ok -> Fails({<<"kv_is_multiset_difference", CanRemove(pre, arg) /\ post = RemoveAll(pre, arg)>>})
     [] e.op = "elevate" /\ ok -> Fails({<<"each_knot_mult_plus_t", post = SetDegreeKV(pre, Deg(pre) + e.times).kv>>})
     [] e.op = "reduce" /\ ok -> Fails({<<"each_knot_mult_minus_t", post = SetDegreeKV(pre, Deg(pre) - e.times).kv>>})
     [] OTHER -> {})

Judge(e) ==
  IF e.amb THEN {"?ambiguous_ranks"}
  ELSE CASE e.kind = "kv" -> KvClauses(e)
         [] e.kind = "cv" -> CvClauses(e)
         [] OTHER -> {"recorder_error"}

RECURSIVE SetToSeqS(_)
SetToSeqS(S) == IF S = {} THEN <<>> ELSE LET x == CHOOSE y \in S : TRUE IN <<x>> \o SetToSeqS(S \ {x})

(* ovf: an arithmetic result left TLC's 32 bits while this event was judged (module Rat): the    *)
(* harness then counts the event as unknown, whatever the clause set says                          *)
Report == idx > 0 =>
  /\ OvfReset(idx)
  /\ LET f == SetToSeqS(Judge(Events[idx])) IN
     /\ f = f
     /\ PrintT(ToJson([id |-> Events[idx].id, fail |-> f, ovf |-> OvfSeen(idx)]))
=============================================================================
