------------------------------ MODULE Blossom ------------------------------
(* Reference results of the refinement operations, derived by blossoming    *)
(* (polar forms) - independent of the Boehm matrices, Bezier elevation and   *)
(* least-squares removal the implementation uses.                           *)
(*   Refine(c, V)  : control points of the same spline on any V that        *)
(*                   refines c.U (more knots and/or higher degree)          *)
(*   Coarsen(c, V) : decides whether c is exactly representable on V        *)
(*                   (fewer knots and/or lower degree) and gives the result *)
EXTENDS Spline

(* de Boor recursion on span k of (U, P) using args[r] at level r: the      *)
(* blossom of the polynomial piece that lives on [U_k, U_k+1).              *)
RECURSIVE BlLevel(_, _, _, _, _, _)
BlLevel(U, p, k, args, r, d) ==
  IF r > p THEN d[0]
  ELSE LET a  == args[r]
           nd == [m \in 0..(p - r) |->
                    LET idx == k - p + m + r
                        lo  == K(U, idx)
                        hi  == K(U, idx + p + 1 - r)
                        al  == Div(Sub(a, lo), Sub(hi, lo))
                    IN Add(Mul(Sub(One, al), d[m]), Mul(al, d[m + 1]))]
       IN BlLevel(U, p, k, args, r + 1, nd)

PieceBlossom(U, P, k, args) ==
  LET p == Deg(U) IN BlLevel(U, p, k, args, 1, [m \in 0..p |-> P[k - p + m + 1]])

(* increasing index sequences of length n inside lo..hi *)
RECURSIVE Subseqs(_, _, _)
Subseqs(lo, hi, n) ==
  IF n = 0 THEN {<<>>}
  ELSE IF hi - lo + 1 < n THEN {}
  ELSE {<<lo>> \o s : s \in Subseqs(lo + 1, hi, n - 1)} \cup Subseqs(lo + 1, hi, n)

(* blossom of the degree-q (q >= p) version of the piece: the symmetric     *)
(* average of the degree-p blossom over all p-subsets of the q arguments    *)
ElevBlossom(U, P, k, args) ==
  LET p == Deg(U) q == Len(args) IN
  IF q = p THEN PieceBlossom(U, P, k, args)
  ELSE LET S   == Subseqs(1, q, p)
           val == [s \in S |-> PieceBlossom(U, P, k, [m \in 1..p |-> args[s[m]]])]
       IN Div(SumOver(val, S), R(Cardinality(S)))

(* first non-empty span of V inside the support of its j-th basis function *)
SupportSpan(V, j) == CHOOSE k \in j..(j + Deg(V)) :
                        Lt(K(V, k), K(V, k + 1)) /\ \A m \in j..(k - 1) : ~Lt(K(V, m), K(V, m + 1))

RefinePts(U, P, V) ==                                  \* requires Refines(V, U)
  LET q == Deg(V) IN
  [jj \in 1..Npts(V) |->
     LET j  == jj - 1
         k  == SupportSpan(V, j)
         ku == Span(U, Mid(K(V, k), K(V, k + 1)))
     IN ElevBlossom(U, P, ku, [i \in 1..q |-> K(V, j + i)])]

Homog(c) == [i \in 1..Len(c.P) |-> Mul(c.W[i], c.P[i])]

Refine(c, V) ==
  IF c.W = <<>> THEN Poly(V, RefinePts(c.U, c.P, V))
  ELSE LET w == RefinePts(c.U, c.W, V)
           a == RefinePts(c.U, Homog(c), V)
       IN Curve(V, [i \in 1..Len(w) |-> Div(a[i], w[i])], w)

(* ------------------------------------------------------------------------ *)
(* Coarsening.  If the spline is representable on V its restriction to a    *)
(* span of V is one polynomial of degree q = Deg(V); interpolate it at q+1  *)
(* points of that span and read the control point off the blossom of the    *)
(* interpolant:  Q_j = b[V_j+1 .. V_j+q].  The candidate is accepted iff    *)
(* refining it back reproduces the input.                                   *)
RECURSIVE Perms(_)
Perms(S) == IF S = {} THEN {<<>>} ELSE UNION {{<<x>> \o s : s \in Perms(S \ {x})} : x \in S}

RECURSIVE ProdSeqFrom(_, _)
ProdSeqFrom(s, i) == IF i > Len(s) THEN One ELSE Mul(s[i], ProdSeqFrom(s, i + 1))
ProdSeq(s) == ProdSeqFrom(s, 1)

(* blossom at args (Len q) of the degree-q interpolant through (xs, ys)     *)
LagrangeBlossom(xs, ys, args) ==
  LET q == Len(xs) - 1 IN
  IF q = 0 THEN ys[1]
  ELSE LET PS == Perms(1..q)
           term(i) ==
             LET others == [m \in 1..q |-> IF m < i THEN xs[m] ELSE xs[m + 1]]
                 den    == ProdSeq([m \in 1..q |-> Sub(xs[i], others[m])])
                 sym    == SumOver([pm \in PS |->
                              ProdSeq([s \in 1..q |-> Sub(args[s], others[pm[s]])])], PS)
             IN Div(Mul(ys[i], sym), Mul(R(Cardinality(PS)), den))
       IN SumSeq([i \in 1..(q + 1) |-> term(i)])

CoarsenPts(U, P, V) ==
  LET q == Deg(V) IN
  [jj \in 1..Npts(V) |->
     LET j  == jj - 1
         k  == SupportSpan(V, j)
         a  == K(V, k)
         b  == K(V, k + 1)
         xs == [i \in 1..(q + 1) |-> Add(a, Mul(Sub(b, a), Q(i, q + 2)))]
         ys == [i \in 1..(q + 1) |-> Eval(Poly(U, P), xs[i])]
     IN LagrangeBlossom(xs, ys, [i \in 1..q |-> K(V, j + i)])]

(* U refines V  (V is the coarser vector) *)
CoarsenCandidate(c, V) ==
  IF c.W = <<>> THEN Poly(V, CoarsenPts(c.U, c.P, V))
  ELSE LET w == CoarsenPts(c.U, c.W, V)
           a == CoarsenPts(c.U, Homog(c), V)
       IN IF \E i \in 1..Len(w) : IsZero(w[i]) THEN Poly(V, a)     \* never accepted below
          ELSE Curve(V, [i \in 1..Len(w) |-> Div(a[i], w[i])], w)

(* exact representability of the homogeneous form on V *)
HomogSame(c1, c2) ==                  \* strict: "unknown" (overflow) is not "same"
  IF c1.W = <<>> THEN c2.W = <<>> /\ SameFunctionStrict(c1, c2)
  ELSE /\ c2.W # <<>>
       /\ SameFunctionStrict(Poly(c1.U, c1.W), Poly(c2.U, c2.W))
       /\ SameFunctionStrict(Poly(c1.U, Homog(c1)), Poly(c2.U, Homog(c2)))

Representable(c, V) ==
  /\ Limits(c.U) = Limits(V)
  /\ Refines(c.U, V)
  /\ HomogSame(c, CoarsenCandidate(c, V))

Coarsen(c, V) == CoarsenCandidate(c, V)                \* meaningful iff Representable(c, V)
=============================================================================
