SPECIFICATION Spec
CONSTANTS
  ArgsOf <- MCArgs
  InitHeaps <- MCInit
  MaxDepth = 1
  Breaks <- Breaks6
  Degs <- DegsQ
  MaxNpts = 8
  CtorLen = 2
  Rich = FALSE
  Acts = {"KvOr", "KvAnd", "KvIOr", "KvIAnd"}
INVARIANT WellFormed
PROPERTY FailedIsNoOp
PROPERTY UnionProps
PROPERTY InterProps
ACTION_CONSTRAINT Log
VIEW View
CHECK_DEADLOCK FALSE
