------------------------------- MODULE Approx -------------------------------
(* Exact integrals of piecewise polynomials: closed Newton-Cotes rules whose *)
(* weights are constants here and whose moment equations TLC verifies at     *)
(* start-up (ASSUME).  Used for L2 deviations (C05/C06 tolerance clause),    *)
(* L2 orthogonality of fitting residuals (C11) and spline integrals (C10).   *)
EXTENDS Blossom

NCWeights(n) ==
  CASE n = 2 -> <<Q(1, 2), Q(1, 2)>>
    [] n = 3 -> <<Q(1, 6), Q(4, 6), Q(1, 6)>>
    [] n = 4 -> <<Q(1, 8), Q(3, 8), Q(3, 8), Q(1, 8)>>
    [] n = 5 -> <<Q(7, 90), Q(32, 90), Q(12, 90), Q(32, 90), Q(7, 90)>>
    [] n = 6 -> <<Q(19, 288), Q(75, 288), Q(50, 288), Q(50, 288), Q(75, 288), Q(19, 288)>>
    [] n = 7 -> <<Q(41, 840), Q(216, 840), Q(27, 840), Q(272, 840), Q(27, 840), Q(216, 840), Q(41, 840)>>
    [] n = 8 -> <<Q(751, 17280), Q(3577, 17280), Q(1323, 17280), Q(2989, 17280),
                  Q(2989, 17280), Q(1323, 17280), Q(3577, 17280), Q(751, 17280)>>
    [] n = 9 -> <<Q(989, 28350), Q(5888, 28350), Q(-928, 28350), Q(10496, 28350), Q(-4540, 28350),
                  Q(10496, 28350), Q(-928, 28350), Q(5888, 28350), Q(989, 28350)>>
NCNodes(n) == [i \in 1..n |-> Q(i - 1, n - 1)]

(* sum_i w_i x_i^k = 1/(k+1)  for k = 0..order-1 *)
MomentsExact(xs, ws, order) ==
  \A k \in 0..(order - 1) :
     SumSeq([i \in 1..Len(xs) |-> Mul(ws[i], RPow(xs[i], k))]) = Q(1, k + 1)

ASSUME \A n \in 2..9 : MomentsExact(NCNodes(n), NCWeights(n), n)

(* odd rule size that integrates degree d exactly on one span *)
RuleFor(d) == IF d <= 2 THEN 3 ELSE IF d <= 4 THEN 5 ELSE IF d <= 6 THEN 7 ELSE 9

(* integral over [a,b] of g, g given by its values on the closed NC nodes    *)
(* of the span: vals[i] = g(a + (b-a) x_i), the last one a LEFT limit        *)
SpanIntegral(a, b, vals) ==
  LET n == Len(vals) w == NCWeights(n) IN
  Mul(Sub(b, a), SumSeq([i \in 1..n |-> Mul(w[i], vals[i])]))

(* value of curve c at the i-th closed node of span [a,b] (left limit at b) *)
NodeVal(c, a, b, n, i) ==
  IF i = n THEN LeftLimit(c, b) ELSE Eval(c, Add(a, Mul(Sub(b, a), Q(i - 1, n - 1))))

(* integral of (c1 - c2)^2 over the common interval; polynomial curves       *)
L2Sq(c1, c2) ==
  LET ks == CommonBreaks(c1.U, c2.U)
      d  == 2 * FnDegree(c1, c2)
      n  == RuleFor(d)
  IN SumSeq([s \in 1..(Len(ks) - 1) |->
        SpanIntegral(ks[s], ks[s + 1],
           [i \in 1..n |-> LET e == Sub(NodeVal(c1, ks[s], ks[s + 1], n, i),
                                       NodeVal(c2, ks[s], ks[s + 1], n, i)) IN Mul(e, e)])])

(* <c1 - c2, N_i of V>  for every basis function of V (degree q)             *)
ResidualMoments(c1, c2, V) ==
  LET ks == SeqOfSet(KnotSet(c1.U) \cup KnotSet(c2.U) \cup KnotSet(V))
      q  == Deg(V)
      d  == FnDegree(c1, c2) + q
      n  == RuleFor(d)
      ls == LastSpan(V)
      bas(i, a, b, m) == IF m = n THEN NL(V, i - 1, q, b)
                         ELSE NN(V, ls, i - 1, q, Add(a, Mul(Sub(b, a), Q(m - 1, n - 1))))
  IN [i \in 1..Npts(V) |->
        SumSeq([s \in 1..(Len(ks) - 1) |->
           SpanIntegral(ks[s], ks[s + 1],
              [m \in 1..n |-> Mul(Sub(NodeVal(c1, ks[s], ks[s + 1], n, m),
                                      NodeVal(c2, ks[s], ks[s + 1], n, m)),
                                  bas(i, ks[s], ks[s + 1], m))])])]

(* integral of a polynomial spline curve *)
IntegralOf(c) ==
  LET ks == Knots(c.U) n == RuleFor(Deg(c.U)) IN
  SumSeq([s \in 1..(Len(ks) - 1) |->
     SpanIntegral(ks[s], ks[s + 1], [i \in 1..n |-> NodeVal(c, ks[s], ks[s + 1], n, i)])])
(* closed form of the same integral: sum_i P_i (u_{i+p+1} - u_i) / (p+1)     *)
IntegralClosedForm(c) ==
  LET p == Deg(c.U) IN
  SumSeq([i \in 1..Len(c.P) |-> Mul(c.P[i], Div(Sub(K(c.U, i + p), K(c.U, i - 1)), R(p + 1)))])

(* dev <= 2 * tol * max(1, width), tol = tn/td, without leaving 32 bits:     *)
(* returns "yes" / "no" / "unknown"                                          *)
WithinTol(dev, tn, td, width) ==
  LET L == IF Lt(width, One) THEN One ELSE width IN
  IF IsNaR(dev) THEN "unknown"
  ELSE IF IsZero(dev) THEN "yes"
  ELSE IF tn = 0 THEN "no"
  ELSE IF td <= 1000 /\ dev[2] <= 100000 /\ Abs(dev[1]) <= 100000 /\ L[1] <= 1000 /\ L[2] <= 1000
       THEN (IF Le(dev, Mul(Q(2 * tn, td), L)) THEN "yes" ELSE "no")
  ELSE \* tiny tolerance (default 1e-9): n/d <= 2 (tn/td) L  <=>  n td Ld <= 2 tn Ln d ;
       \* the left side is >= td, so the answer is "no" as soon as 2 tn Ln d < td
       IF tn = 1 /\ dev[2] <= 20000 /\ L[1] <= 50
       THEN (IF 2 * L[1] * dev[2] < td THEN "no" ELSE "unknown")
       ELSE "unknown"
=============================================================================
