SPECIFICATION Spec
CONSTANTS
  ArgsOf <- MCArgs
  InitHeaps <- MCInit2
  MaxDepth = 1
  Breaks <- BreaksQ
  Degs <- DegsT
  MaxNpts = 5
  Acts = {"CvFitCurve", "CvFitInRational"}
  PtKinds = {"pos", "ratlin"}
  WtKinds = {"none"}
  ExtraNodes <- Extra0
  NodeSize = 2
  Scenario = "single"
  PrepDepth = 0
  OtherDegs <- DegsT
  OtherMaxNpts = 5
INVARIANT WellFormed
PROPERTY FailedIsNoOp

ACTION_CONSTRAINT Log
VIEW View
CHECK_DEADLOCK FALSE
