SPECIFICATION Spec
CONSTANTS
  ArgsOf <- MCArgs
  InitHeaps <- MCInit2
  MaxDepth = 1
  Breaks <- BreaksQ
  Degs <- DegsT
  MaxNpts = 6
  Acts = {"CvSplit", "CvSplitJoin"}
  PtKinds = {"gen", "unit"}
  WtKinds = {"none", "gen", "gen2"}
  ExtraNodes <- Extra0
  NodeSize = 2
  Scenario = "single"
  PrepDepth = 0
  OtherDegs <- DegsQ
  OtherMaxNpts = 4
INVARIANT WellFormed
PROPERTY FailedIsNoOp
PROPERTY SplitRestricts
ACTION_CONSTRAINT Log
VIEW View
CHECK_DEADLOCK FALSE
