SPECIFICATION Spec
CONSTANTS
  ArgsOf <- MCArgs
  InitHeaps <- MCInit2
  MaxDepth = 2
  Breaks <- BreaksQ
  Degs <- DegsQ
  MaxNpts = 4
  Acts = {"CvDegreeIncrease", "CvDegreeDecrease"}
  PtKinds = {"gen", "homlin", "negw"}
  WtKinds = {"none", "gen", "const"}
  ExtraNodes <- Extra0
  NodeSize = 2
  Scenario = "history"
  PrepDepth = 1
  OtherDegs <- DegsQ
  OtherMaxNpts = 4
INVARIANT WellFormed
PROPERTY FailedIsNoOp
PROPERTY ReduceExactOrRefused
ACTION_CONSTRAINT Log
VIEW View
CHECK_DEADLOCK FALSE
