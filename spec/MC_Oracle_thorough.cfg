SPECIFICATION Spec
CONSTANTS
  Breaks <- BreaksT
  Degs <- DegsT
  MaxNpts = 7
  ExtraNodes <- ExtraT
INVARIANT WellFormedUniverse
INVARIANT PartitionOfUnity
INVARIANT NonNegative
INVARIANT LocalSupport
INVARIANT EndPoints
INVARIANT SpanBrackets
INVARIANT LeftLimitAgrees
INVARIANT RefinePreserves
INVARIANT RefineRational
INVARIANT CoarsenInverts
INVARIANT CoarsenRefuses
INVARIANT UnionRefinesBoth
INVARIANT UnionIsCoarsest
INVARIANT UnionRepresents
INVARIANT ReparamInvariant
INVARIANT Linear
INVARIANT FastEqualsDef
INVARIANT JavaAgreesWithDef
CHECK_DEADLOCK FALSE
