------------------------------ MODULE Calculus ------------------------------
(* Derivative of a curve inside a span, computed from VALUES only: on a span *)
(* the curve is a polynomial of degree <= p, which equals its Lagrange        *)
(* interpolant through p+1 points of that span; differentiate the interpolant.*)
(* Independent of the control-point difference formula the implementation     *)
(* uses.  Rational curves: quotient rule on numerator and denominator splines.*)
EXTENDS Approx

(* derivative at u of the interpolant through (xs, ys); Len(xs) = q+1 >= 1    *)
LagrangeDeriv(xs, ys, u) ==
  LET n == Len(xs) IN
  IF n = 1 THEN Zero
  ELSE SumSeq([i \in 1..n |->
         Mul(ys[i],
             SumSeq([m \in 1..n |->
                IF m = i THEN Zero
                ELSE Mul(Inv(Sub(xs[i], xs[m])),
                         ProdSeq([k \in 1..n |->
                            IF k = i \/ k = m THEN One
                            ELSE Div(Sub(u, xs[k]), Sub(xs[i], xs[k]))]))]))])

(* span [a,b) of U containing u (u not the right end) *)
SpanEnds(U, u) == LET k == Span(U, u) IN <<K(U, k), K(U, k + 1)>>

PolyDEval(U, P, u) ==
  LET p  == Deg(U)
      ab == SpanEnds(U, u)
      xs == [i \in 1..(p + 1) |-> Add(ab[1], Mul(Sub(ab[2], ab[1]), Q(i, p + 2)))]
      ys == [i \in 1..(p + 1) |-> Eval(Poly(U, P), xs[i])]
  IN LagrangeDeriv(xs, ys, u)

DEval(c, u) ==                      \* u strictly inside a span
  IF c.W = <<>> THEN PolyDEval(c.U, c.P, u)
  ELSE LET a  == Eval(Poly(c.U, Homog(c)), u)
           w  == Eval(Poly(c.U, c.W), u)
           da == PolyDEval(c.U, Homog(c), u)
           dw == PolyDEval(c.U, c.W, u)
       IN Div(Sub(Mul(da, w), Mul(a, dw)), Mul(w, w))

(* the textbook control-point formula, for the theorem DerivFormulaAgrees:    *)
(* C'(u) = sum_i p (P_i+1 - P_i)/(u_i+p+1 - u_i+1) N_i,p-1(u) over U' = U[2..] *)
DerivCurve(U, P) ==
  LET p  == Deg(U)
      U2 == SubSeq(U, 2, Len(U) - 1)
      Q2 == [i \in 1..(Len(P) - 1) |->
               IF K(U, i + p) = K(U, i) THEN Zero
               ELSE Mul(Div(R(p), Sub(K(U, i + p), K(U, i))), Sub(P[i + 1], P[i]))]
  IN [U |-> U2, P |-> Q2]
(* value of that derivative curve at u inside a span (U2 may have interior    *)
(* knots of multiplicity p+1-1+1: evaluate the sum directly)                  *)
DerivFormulaEval(U, P, u) ==
  LET d == DerivCurve(U, P) p == Deg(U) IN
  SumSeq([i \in 1..Len(d.P) |-> Mul(d.P[i], NN(d.U, LastSpan(d.U), i - 1, p - 1, u))])

InteriorGrid(U, d) ==
  LET ks == Knots(U) IN UNION {InteriorPts(ks[i], ks[i + 1], d) : i \in 1..(Len(ks) - 1)}
=============================================================================
