-------------------------------- MODULE Sem --------------------------------
(* Relational semantics of the Curve operations whose result is not one      *)
(* canonical representation: for each action an operator returning the SET   *)
(* OF FAILING CLAUSE NAMES of an observed (pre, args, outcome, post).        *)
(* Nurbs.tla uses them as action properties of its own transitions,          *)
(* Trace.tla to judge events recorded from the implementation.               *)
EXTENDS Approx

(* ---- observed values ---------------------------------------------------------------------- *)
(* The observed result curve d may carry numbers far outside TLC's 32 bits (a wrong result is   *)
(* typically a best fit with huge denominators).  The harness therefore also records the VALUES  *)
(* d(u) the implementation returns on a sample set (C01 binds curve(u) to Eval), a value that    *)
(* does not fit in 32 bits is recorded as NaR = <<0,0>> and can never equal an expected value.    *)
(* dv is a sequence of <<u, d(u)>>.  SamplesCover: the sample set contains every point the        *)
(* complete function-equality test needs (knots + deg+1 interior points per span).               *)
ObsPts(dv) == {dv[i][1] : i \in DOMAIN dv}
Obs(dv, u) == (CHOOSE i \in DOMAIN dv : dv[i][1] = u)
ObsVal(dv, u) == dv[Obs(dv, u)][2]
SamplesCover(dv, ks, deg) == SamplePts(ks, deg) \subseteq ObsPts(dv)
(* observed d equals curve c on the whole sample set *)
ObservedEquals(c, dv, ks, deg) ==
  /\ SamplesCover(dv, ks, deg)
  /\ \A u \in SamplePts(ks, deg) : ObsVal(dv, u) = Eval(c, u)

Fails(pairs) == {p[1] : p \in {q \in pairs : ~q[2]}}     \* pairs: set of <<name, holds>>

Tol(t) == t                                   \* <<"default">> | <<"none">> | <<"q", n, d>>
(* <<"e", k>> stands for 10^-k with k > 9 (not representable): treated as "smaller than anything but zero" *)
TolNum(t) == IF t[1] = "default" THEN 1 ELSE IF t[1] = "e" THEN 1 ELSE t[2]
TolDen(t) == IF t[1] = "default" THEN 1000000000 ELSE IF t[1] = "e" THEN 1000000000 ELSE t[3]

Width(U) == Sub(Umax(U), Umin(U))

(* size guard: clauses that square and integrate leave TLC's 32 bits when the observed numbers are  *)
(* large; such a clause is then reported as "?name" (unknown - counted, never a violation)          *)
SmallSeq(s, bound) == \A i \in DOMAIN s : Abs(s[i][1]) <= bound /\ s[i][2] <= bound
SmallCurve(c, bound) == SmallSeq(c.U, bound) /\ SmallSeq(c.P, bound) /\ SmallSeq(c.W, bound)

(* ---- accepted approximations: a rigorous LOWER bound of the squared L2 deviation -------------------*)
(* On a span of length h the error e = c - d is N/(w_c w_d) with N a polynomial of degree <= D          *)
(* (D = max degree for polynomial curves, the sum of the degrees for rational ones) and, weights being  *)
(* positive, w <= max W.  Nikolskii's inequality  max|N| <= (D+1)/sqrt(h) ||N||_2  gives                 *)
(*     integral over the span of e^2  >=  h e(u)^2 rho(u)^2 / (D+1)^2 ,                                  *)
(*     rho(u) = w_c(u) w_d(u) / (max W_c max W_d)   (1 for polynomial curves)                            *)
(* for EVERY point u of the span, in particular the recorded sample points.  If that already exceeds    *)
(* the bound 2 tol max(1, width) the accepted result is a violation ("exceeds"); otherwise the exact    *)
(* integral decides when everything is polynomial and small, else the verdict is "within"/"unknown".    *)
RECURSIVE MaxSeq(_, _)
MaxSeq(sq, i) == IF i = Len(sq) THEN sq[i] ELSE RMax(sq[i], MaxSeq(sq, i + 1))
SpanLen(ks, u) ==
  LET i == CHOOSE k \in 1..(Len(ks) - 1) : Le(ks[k], u) /\ Le(u, ks[k + 1]) IN Sub(ks[i + 1], ks[i])
ExceedsTol(lb, tn, td, width) ==              \* lb > 2 (tn/td) max(1,width) ?  "yes" / "no" / "unknown"
  LET L == IF Lt(width, One) THEN One ELSE width IN
  IF IsNaR(lb) THEN "unknown"
  ELSE IF IsZero(lb) THEN "no"
  ELSE IF tn = 0 THEN "yes"                       \* zero tolerance: any positive deviation exceeds it
  ELSE IF lb[2] <= 30000 /\ Abs(lb[1]) <= 30000 /\ L[1] <= 1000 /\ L[2] <= 1000 /\ td <= 1000
  THEN (IF Lt(Mul(Q(2 * tn, td), L), lb) THEN "yes" ELSE "no")
  ELSE IF tn = 1 /\ td > 1000 /\ lb[2] <= 20000 /\ L[1] <= 50 /\ L[2] = 1
  THEN (IF 2 * L[1] * lb[2] < td THEN "yes" ELSE "unknown")   \* lb = n/d >= 1/d > 2 L / td
  ELSE "unknown"
DeviationVerdict(c, d, dv, tol) ==
  LET ks   == CommonBreaks(c.U, d.U)
      rat  == c.W # <<>> \/ d.W # <<>>
      D    == IF rat THEN Deg(c.U) + Deg(d.U) ELSE (IF Deg(c.U) > Deg(d.U) THEN Deg(c.U) ELSE Deg(d.U))
      okW  == SmallSeq(d.W, 10000) /\ \A i \in DOMAIN d.W : Sign(d.W[i]) > 0
      pts  == {u \in ObsPts(dv) : u \notin KnotSet(c.U) \cup KnotSet(d.U) /\ ObsVal(dv, u) # NaR}
      rho(u) == IF ~rat THEN One
                ELSE Mul(Div(IF c.W = <<>> THEN One ELSE Eval(Poly(c.U, c.W), u),
                             IF c.W = <<>> THEN One ELSE MaxSeq(c.W, 1)),
                         Div(IF d.W = <<>> THEN One ELSE Eval(Poly(d.U, d.W), u),
                             IF d.W = <<>> THEN One ELSE MaxSeq(d.W, 1)))
      lb(u) == LET e == Sub(ObsVal(dv, u), Eval(c, u)) r == rho(u) IN
               Div(Mul(SpanLen(ks, u), Mul(Mul(e, e), Mul(r, r))), R((D + 1) * (D + 1)))
      small(u) == LET v == ObsVal(dv, u) IN Abs(v[1]) <= 3000 /\ v[2] <= 3000
      verdicts == {ExceedsTol(lb(u), TolNum(tol), TolDen(tol), Width(c.U)) : u \in {x \in pts : small(x)}}
  IN IF rat /\ ~okW THEN "unknown"
     ELSE IF "yes" \in verdicts THEN "exceeds"
     ELSE IF ~rat /\ SmallCurve(d, 300) /\ WithinTol(L2Sq(c, d), TolNum(tol), TolDen(tol), Width(c.U)) = "no" THEN "exceeds"
     ELSE IF ~rat /\ SmallCurve(d, 300) /\ WithinTol(L2Sq(c, d), TolNum(tol), TolDen(tol), Width(c.U)) = "yes" THEN "within"
     ELSE IF pts = {} \/ "unknown" \in verdicts THEN "unknown"
     ELSE "within-as-far-as-decided"

(* ---- generic: coarsening a curve c to the target vector V ----------------*)
(* cls: observed outcome class, d: observed curve afterwards                 *)
CoarsenClauses(c, V, tol, cls, d, dv) ==
  LET exact == Representable(c, V) IN
  IF cls # "ok" THEN
     Fails({<<"unchanged_on_failure", d = c>>,
            <<"error_class_is_ValueError", cls = "ValueError">>,
            <<"exact_case_must_succeed", ~exact>>,
            <<"tolerance_None_always_succeeds", tol[1] # "none">>})
  ELSE
     Fails({<<"kv_is_target", d.U = V>>,
            <<"result_consistent", ConsistentCurve(d)>>,
            <<"exact_case_same_function", (exact /\ d.U = V /\ ConsistentCurve(d)) =>
                  ObservedEquals(c, dv, CommonBreaks(c.U, V), Deg(c.U) + Deg(V))>>,
            <<"deviation_within_tolerance",
                (~exact /\ tol[1] # "none" /\ d.U = V /\ ConsistentCurve(d))
                   => DeviationVerdict(c, d, dv, tol) # "exceeds">>,
            <<"?deviation_within_tolerance",
                (~exact /\ tol[1] # "none" /\ d.U = V /\ ConsistentCurve(d))
                   => DeviationVerdict(c, d, dv, tol) # "unknown">>,
            <<"keeps_values_at_remaining_knots",
                (tol[1] = "none" /\ Deg(V) >= 1 /\ d.U = V /\ ConsistentCurve(d))
                   => \A x \in KnotSet(V) : x \in ObsPts(dv) /\ ObsVal(dv, x) = Eval(c, x)>>})

RemoveRequestValid(c, nodes) ==
  LET r == RemoveKV(c.U, nodes) IN r.ok /\ Deg(r.kv) = Deg(c.U)

KnotRemoveClauses(c, nodes, tol, cls, d, dv) ==
  IF ~RemoveRequestValid(c, nodes)
  THEN Fails({<<"invalid_request_refused", cls # "ok">>, <<"unchanged_on_failure", d = c>>})
  ELSE CoarsenClauses(c, RemoveKV(c.U, nodes).kv, tol, cls, d, dv)

DegreeDecreaseClauses(c, t, tol, cls, d, dv) ==
  LET r == SetDegreeKV(c.U, Deg(c.U) - t) IN
  IF t < 1 \/ ~r.ok
  THEN Fails({<<"invalid_request_refused", cls # "ok">>, <<"unchanged_on_failure", d = c>>})
  ELSE CoarsenClauses(c, r.kv, tol, cls, d, dv)

(* curve.knotvector = V  (arbitrary target on the same interval) *)
SetKnotvectorClauses(c, V, cls, d, dv) ==
  IF Limits(V) # Limits(c.U)
  THEN Fails({<<"invalid_request_refused", cls # "ok">>, <<"unchanged_on_failure", d = c>>})
  ELSE IF Refines(V, c.U)
  THEN Fails({<<"refinement_succeeds", cls = "ok">>,
              <<"kv_is_target", cls = "ok" => d.U = V>>,
              <<"same_function", (cls = "ok" /\ d.U = V /\ ConsistentCurve(d)) =>
                    ObservedEquals(c, dv, CommonBreaks(c.U, V), Deg(c.U) + Deg(V))>>})
  ELSE IF Refines(c.U, V) THEN CoarsenClauses(c, V, <<"default">>, cls, d, dv)
  ELSE Fails({<<"unchanged_on_failure", cls # "ok" => d = c>>,
              <<"kv_is_target", cls = "ok" => d.U = V>>})

(* ---- minimal representation (polynomial) ---------------------------------*)
RECURSIVE LowerDegree(_)
LowerDegree(c) ==
  LET r == SetDegreeKV(c.U, Deg(c.U) - 1) IN
  IF Deg(c.U) >= 1 /\ r.ok /\ Representable(c, r.kv) THEN LowerDegree(Coarsen(c, r.kv)) ELSE c

RECURSIVE DropKnots(_, _)
DropKnots(c, ks) ==                            \* ks: sequence of interior knots still to try
  IF ks = <<>> THEN c
  ELSE LET x == Head(ks)
           r == RemoveKV(c.U, <<x>>) IN
       IF r.ok /\ Deg(r.kv) = Deg(c.U) /\ Representable(c, r.kv)
       THEN DropKnots(Coarsen(c, r.kv), ks)
       ELSE DropKnots(c, Tail(ks))

InteriorKnots(U) == SeqOfSet(KnotSet(U) \ {Umin(U), Umax(U)})
KnotMinimal(c)  == DropKnots(c, InteriorKnots(c.U))
Minimal(c)      == KnotMinimal(LowerDegree(c))

(* ---- join -----------------------------------------------------------------*)
WeightsOrOnes(c) == IF c.W = <<>> THEN Repeat(One, Len(c.P)) ELSE c.W
ElevateTo(c, m)  == IF Deg(c.U) = m THEN c ELSE Refine(c, SetDegreeKV(c.U, m).kv)

(* A on [a,j], B on [j,b], both polynomial: junction at multiplicity m+1, then minimal there *)
FullJoin(A, B) ==
  LET m  == IF Deg(A.U) > Deg(B.U) THEN Deg(A.U) ELSE Deg(B.U)
      A2 == ElevateTo(A, m)
      B2 == ElevateTo(B, m)
      U  == SubSeq(A2.U, 1, Len(A2.U) - (m + 1)) \o SubSeq(B2.U, 1, Len(B2.U))
  IN Poly(U, A2.P \o B2.P)
RECURSIVE DropAt(_, _)
DropAt(c, x) ==
  LET r == RemoveKV(c.U, <<x>>) IN
  IF r.ok /\ Deg(r.kv) = Deg(c.U) /\ Representable(c, r.kv) THEN DropAt(Coarsen(c, r.kv), x) ELSE c
JoinResult(A, B) == DropAt(FullJoin(A, B), Umax(A.U))

RestrictedEquals(c, dv, lo, hi, ks, deg) ==      \* observed values equal c on [lo, hi) sample points
  \A u \in {x \in SamplePts(ks, deg) : Le(lo, x) /\ Lt(x, hi)} : u \in ObsPts(dv) /\ ObsVal(dv, u) = Eval(c, u)

JoinClauses(A, B, cls, d, dv) ==
  IF Umax(A.U) # Umin(B.U)
  THEN Fails({<<"non_adjacent_is_ValueError", cls = "ValueError">>})
  ELSE IF cls # "ok" THEN {"adjacent_join_succeeds"}
  ELSE IF ~ConsistentCurve(d) THEN {"result_consistent"}
  ELSE LET ks  == SeqOfSet(KnotSet(A.U) \cup KnotSet(B.U) \cup KnotSet(d.U))
           deg == Deg(A.U) + Deg(B.U) + Deg(d.U)
           j   == Umax(A.U) IN
       Fails({<<"interval_is_union", Limits(d.U) = <<Umin(A.U), Umax(B.U)>> >>,
              <<"equals_A_on_left", RestrictedEquals(A, dv, Umin(A.U), j, ks, deg)>>,
              <<"equals_B_on_right", RestrictedEquals(B, dv, j, Umax(B.U), ks, deg)
                                     /\ Umax(B.U) \in ObsPts(dv) /\ ObsVal(dv, Umax(B.U)) = Eval(B, Umax(B.U))>>,
              <<"junction_multiplicity_minimal",
                  (A.W = <<>> /\ B.W = <<>>) => d.U = JoinResult(A, B).U>>})

(* ---- arithmetic -------------------------------------------------------------*)
(* op in {"add","sub","mul","div","neg", scalar forms}; operands and result are   *)
(* curves; s a rational scalar.  pointwise on a sample that decides equality of  *)
(* the rational functions involved.                                              *)
ArithValue(op, x, y) ==
  CASE op = "add" -> Add(x, y) [] op = "sub" -> Sub(x, y) [] op = "mul" -> Mul(x, y)
    [] op = "div" -> Div(x, y)

ArithClauses(op, A, B, cls, Rr, dv) ==
  IF Limits(A.U) # Limits(B.U)
  THEN Fails({<<"different_intervals_is_ValueError", cls = "ValueError">>})
  ELSE IF cls # "ok" THEN {"operation_succeeds"}
  ELSE IF ~ConsistentCurve(Rr) \/ Limits(Rr.U) # Limits(A.U) THEN {"result_consistent"}
  ELSE LET ks == SeqOfSet(KnotSet(A.U) \cup KnotSet(B.U) \cup KnotSet(Rr.U))
           d  == Deg(A.U) + Deg(B.U) + Deg(Rr.U)
           S  == SamplePts(ks, d) IN
       Fails({<<"samples_cover", SamplesCover(dv, ks, d)>>,
              <<"pointwise", SamplesCover(dv, ks, d) =>
                    \A u \in S : ObsVal(dv, u) = ArithValue(op, Eval(A, u), Eval(B, u))>>})

(* A @ B for 2-D curves A = (A1, A2), B = (B1, B2): the inner product, a scalar curve *)
MatmulClauses(A1, A2, B1, B2, cls, Rr, dv) ==
  IF Limits(A1.U) # Limits(B1.U)
  THEN Fails({<<"different_intervals_is_ValueError", cls = "ValueError">>})
  ELSE IF cls # "ok" THEN {"operation_succeeds"}
  ELSE IF ~ConsistentCurve(Rr) \/ Limits(Rr.U) # Limits(A1.U) THEN {"result_consistent"}
  ELSE LET ks == SeqOfSet(KnotSet(A1.U) \cup KnotSet(B1.U) \cup KnotSet(Rr.U))
           d  == Deg(A1.U) + Deg(B1.U) + Deg(Rr.U)
           S  == SamplePts(ks, d) IN
       Fails({<<"samples_cover", SamplesCover(dv, ks, d)>>,
              <<"pointwise_inner_product", SamplesCover(dv, ks, d) =>
                    \A u \in S : ObsVal(dv, u) = Add(Mul(Eval(A1, u), Eval(B1, u)), Mul(Eval(A2, u), Eval(B2, u)))>>})

(* one coordinate of M @ A (or A @ M) for a 2-D curve A = (A1, A2): R(u) = a A1(u) + b A2(u) *)
LinearClauses(a, b, A1, A2, cls, Rr, dv) ==
  IF cls # "ok" THEN {"operation_succeeds"}
  ELSE IF ~ConsistentCurve(Rr) \/ Limits(Rr.U) # Limits(A1.U) THEN {"result_consistent"}
  ELSE LET ks == CommonBreaks(A1.U, Rr.U)
           d  == 2 * Deg(A1.U) + Deg(Rr.U)
           S  == SamplePts(ks, d) IN
       Fails({<<"samples_cover", SamplesCover(dv, ks, d)>>,
              <<"pointwise_linear_combination", SamplesCover(dv, ks, d) =>
                    \A u \in S : ObsVal(dv, u) = Add(Mul(a, Eval(A1, u)), Mul(b, Eval(A2, u)))>>})

(* scalar forms: result(u) = f(A(u)) with f given by (op, s) *)
ScalarValue(op, s, x) ==
  CASE op = "s+A" -> Add(s, x) [] op = "A+s" -> Add(x, s) [] op = "s-A" -> Sub(s, x)
    [] op = "A-s" -> Sub(x, s) [] op = "s*A" -> Mul(s, x) [] op = "A*s" -> Mul(x, s)
    [] op = "A/s" -> Div(x, s) [] op = "s/A" -> Div(s, x) [] op = "neg" -> Neg(x)

ScalarClauses(op, s, A, cls, Rr, dv) ==
  IF cls # "ok" THEN {"operation_succeeds"}
  ELSE IF ~ConsistentCurve(Rr) \/ Limits(Rr.U) # Limits(A.U) THEN {"result_consistent"}
  ELSE LET ks == CommonBreaks(A.U, Rr.U)
           d  == 2 * Deg(A.U) + Deg(Rr.U)
           S  == SamplePts(ks, d) IN
       Fails({<<"samples_cover", SamplesCover(dv, ks, d)>>,
              <<"pointwise", SamplesCover(dv, ks, d) => \A u \in S : ObsVal(dv, u) = ScalarValue(op, s, Eval(A, u))>>})

(* ---- equality ----------------------------------------------------------------*)
(* TRUE / FALSE, or NaR when the comparison left TLC's range (the harness then skips the transition) *)
EqValue(A, B) ==
  LET r == SameFunction3(A, B) IN
  IF r = "yes" THEN TRUE ELSE IF r = "no" THEN FALSE ELSE NaR

(* ---- fitting -----------------------------------------------------------------*)
(* S.fit_curve(C): D on V.  polynomial source and target.  err: returned error    *)
FitCurveClauses(C, V, nodes, D, err) ==
  IF ~(ConsistentCurve(D) /\ D.U = V) THEN {"result_consistent"}
  ELSE IF ~(SmallCurve(D, 400) /\ Abs(err[1]) <= 100000 /\ err[2] <= 100000)
  THEN {"?fit_clauses_numbers_too_large"} \cup
       Fails({<<"interpolates_nodes", \A i \in DOMAIN nodes : Eval(D, nodes[i]) = Eval(C, nodes[i])>>})
  ELSE
  LET inS == Refines(C.U, V) /\ Representable(C, V)
      l2  == L2Sq(C, D)
      mom == ResidualMoments(C, D, V)
  IN Fails({<<"err_nonneg", Sign(err) >= 0>>,
            <<"in_space_reproduced", inS => (D = Coarsen(C, V) /\ IsZero(err))>>,
            <<"err_zero_only_in_space", IsZero(err) => IsZero(l2)>>,
            <<"err_is_multiple_of_L2", err = l2 \/ err = Mul(Half, l2)>>,
            <<"residual_orthogonal", nodes = <<>> => \A i \in 1..Len(mom) : IsZero(mom[i])>>,
            <<"interpolates_nodes", \A i \in DOMAIN nodes : Eval(D, nodes[i]) = Eval(C, nodes[i])>>})

(* the same for 2-D control points: coordinates are fitted independently, the error is that of the worst one *)
FitCurve2Clauses(C1, C2, V, nodes, D1, D2, err) ==
  IF ~(ConsistentCurve(D1) /\ D1.U = V /\ ConsistentCurve(D2) /\ D2.U = V) THEN {"result_consistent"}
  ELSE IF ~(SmallCurve(D1, 400) /\ SmallCurve(D2, 400) /\ Abs(err[1]) <= 100000 /\ err[2] <= 100000)
  THEN {"?fit_clauses_numbers_too_large"}
  ELSE
  LET l1 == L2Sq(C1, D1) l2 == L2Sq(C2, D2)
      m  == RMax(l1, l2)
      m1 == ResidualMoments(C1, D1, V) m2 == ResidualMoments(C2, D2, V)
  IN Fails({<<"err_nonneg", Sign(err) >= 0>>,
            <<"err_is_multiple_of_worst_L2", err = m \/ err = Mul(Half, m)>>,
            <<"residual_orthogonal", nodes = <<>> => \A i \in 1..Len(m1) : IsZero(m1[i]) /\ IsZero(m2[i])>>,
            <<"interpolates_nodes", \A i \in DOMAIN nodes :
                 Eval(D1, nodes[i]) = Eval(C1, nodes[i]) /\ Eval(D2, nodes[i]) = Eval(C2, nodes[i])>>})

(* discrete least squares: B[k][i] = R_i(z_k); residual orthogonal to every column *)
FitPointsClauses(V, W, nodes, data, D) ==
  IF ~(ConsistentCurve(D) /\ D.U = V /\ D.W = W) THEN {"result_consistent"}
  ELSE
  LET n   == Npts(V)
      row(k) == IF W = <<>> THEN BasisRow(V, Deg(V), nodes[k]) ELSE RationalRow(V, W, Deg(V), nodes[k])
      res == [k \in 1..Len(nodes) |-> Sub(Eval(D, nodes[k]), data[k])]
      col(i) == SumSeq([k \in 1..Len(nodes) |-> Mul(row(k)[i], res[k])])
  IN Fails({<<"normal_equations", \A i \in 1..n : IsZero(col(i))>>,
            <<"interpolates_when_square", Len(nodes) = n => \A k \in 1..Len(nodes) : IsZero(res[k])>>})
=============================================================================
