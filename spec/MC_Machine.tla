----------------------------- MODULE MC_Machine -----------------------------
(* C15: the Curve history machine.  Heap: a (the curve operated on), b (a      *)
(* sibling curve built from the SAME KnotVector object k), k itself.  Every     *)
(* public Curve operation with valid and invalid arguments; after every step    *)
(* the harness compares all three objects with the model.                       *)
EXTENDS Nurbs

CONSTANTS Breaks, Degs, MaxNpts, WtKinds

AllKV == KVs(Breaks, Degs, MaxNpts)
Wts(n) == (IF "none" \in WtKinds THEN {<<>>} ELSE {}) \cup (IF "gen" \in WtKinds THEN {WGen1(n)} ELSE {})
MCInit == UNION {{[a |-> CvObj(Curve(U, Gen1(Npts(U)), W)), b |-> CvObj(Curve(U, Gen2(Npts(U)), <<>>)), k |-> KvObj(U)]
                    : W \in Wts(Npts(U))} : U \in AllKV}

InteriorSet(U) == KnotSet(U) \ {Umin(U), Umax(U)}
Pool1(U) == Midpoints(U) \cup InteriorSet(U) \cup {Umin(U), Add(Umax(U), One)}
Other(U) == Curve(U, Gen2(Npts(U)), <<>>)

MCArgs(name, h, dep) ==
  LET U == h["a"].U n == Npts(U) IN
  CASE name = "CvKnotInsert" -> {[obj |-> "a", nodes |-> <<x>>] : x \in Pool1(U)}
                                \cup {[obj |-> "a", nodes |-> <<x, x>>] : x \in Midpoints(U)}
                                \cup {[obj |-> "a", nodes |-> <<Umin(U), Umax(U)>>]}
    [] name = "CvKnotRemove" -> {[obj |-> "a", nodes |-> <<x>>, tol |-> <<"default">>] : x \in InteriorSet(U) \cup {Q(5, 7), Umin(U)}}
                                \cup {[obj |-> "a", nodes |-> <<x, y>>, tol |-> <<"default">>] : x \in InteriorSet(U), y \in InteriorSet(U) \cup {Q(5, 7)}}
    [] name = "CvDegreeIncrease" -> {[obj |-> "a", times |-> 1, form |-> f] : f \in {"method", "setter"}}
    [] name = "CvDegreeDecrease" -> {[obj |-> "a", times |-> 1, tol |-> <<"default">>, form |-> "method"]}
    [] name = "CvClean" -> {[obj |-> "a", which |-> "all", tol |-> <<"default">>]}
    [] name = "CvSetCtrlpoints" -> {[obj |-> "a", points |-> Gen2(n)], [obj |-> "a", points |-> Gen2(n + 1)],
                                    [obj |-> "a", points |-> Gen2(n - 1)]}
    [] name = "CvSetWeights" -> {[obj |-> "a", weights |-> WGen1(n)], [obj |-> "a", weights |-> WGen1(n + 1)]}
                                \* a sign change of continuous weights is a zero of the weight function
                                \cup (IF n >= 2 /\ Deg(U) >= 1 /\ \A x \in InteriorSet(U) : MultOf(U, x) <= Deg(U)
                                      THEN {[obj |-> "a", weights |-> [i \in 1..n |-> IF i = 1 THEN R(-1) ELSE One]]} ELSE {})
                                \cup (IF n >= 2 THEN {[obj |-> "a", weights |-> WGen1(n - 1)]} ELSE {})
    [] name = "CvSetKnotvector" -> {[obj |-> "a", kv |-> SortedUnion(U, <<x>>)] : x \in Midpoints(U)}
                                   \cup {[obj |-> "a", kv |-> ShiftKV(U, One).kv]}
    [] name = "CvApply" ->
         LET Id(r, k) == [i \in 1..r |-> [j \in 1..k |-> IF i = j THEN One ELSE Zero]]
             Revm(k) == [i \in 1..k |-> [j \in 1..k |-> IF i + j = k + 1 THEN One ELSE Zero]]
             Avg(k) == [i \in 1..k |-> [j \in 1..k |-> IF j = i THEN Half ELSE IF j = (i % k) + 1 THEN Half ELSE Zero]] IN
         {[obj |-> "a", kv |-> U, matrix |-> m] : m \in {Revm(n), Avg(n), Id(n - 1, n), Id(n, n + 1), Id(n + 1, n)} \ {<<>>}}
         \cup {[obj |-> "a", kv |-> ShiftKV(U, One).kv, matrix |-> Revm(n)]}
         \cup {[obj |-> "a", kv |-> SetDegreeKV(U, Deg(U) + 1).kv, matrix |-> Id(n, n)]}
    [] name = "CvEval" -> {[obj |-> "a", nodes |-> SeqOfSet(ParamGrid(U, 0)), scalar |-> FALSE, form |-> "tuple"],
                           [obj |-> "a", nodes |-> <<Add(Umax(U), One)>>, scalar |-> TRUE]}
    [] name = "CvSplit" -> {[obj |-> "a", nodes |-> <<x>>, form |-> "nodes"] : x \in Midpoints(U)}
                           \cup {[obj |-> "a", nodes |-> Knots(U), form |-> "noarg"]}
    [] name = "CvArith" -> {[obj |-> "a", other |-> Other(U), op |-> o] : o \in {"add", "mul"}}
                           \cup {[obj |-> "a", other |-> [Other(U) EXCEPT !.U = ShiftKV(U, One).kv], op |-> "add"]}
    [] name = "CvEq" -> {[obj |-> "a", other |-> Other(U)], [obj |-> "a", other |-> AsCurve(h["a"])]}
    [] name = "CvCopy" -> {[obj |-> "a"]}
    [] name = "CvFraction" -> {[obj |-> "a"]}
    [] name = "CvDerivate" -> {[obj |-> "a"]}
    [] name = "CvIntegrate" -> IF h["a"].W = <<>> THEN {[obj |-> "a", method |-> "default", nnodes |-> 0]} ELSE {}
    [] name = "CvFitCurve" -> IF Limits(h["b"].U) # Limits(U) THEN {} ELSE {[obj |-> "b", other |-> AsCurve(h["a"]), nodes |-> <<>>]}   \* fitting ANOTHER curve to a: a is only read
    [] name = "CvJoin" -> {[obj |-> "a", other |-> [Other(U) EXCEPT !.U = ShiftKV(U, Sub(Umax(U), Umin(U))).kv]],
                           [obj |-> "a", other |-> Other(U)]}
    [] OTHER -> {}

BreaksQ == <<R(-1), R(0), R(2), R(3)>>
DegsQ == 0..2
DegsT == 0..3
=============================================================================
