SPECIFICATION Spec
CONSTANTS
  ArgsOf <- MCArgs
  InitHeaps <- MCInit
  MaxDepth = 2
  Acts = {"MemoRequest"}
  MaxP = 1
  MaxExtra = 1
  MemoN = 4
  GeoRich = FALSE
PROPERTY MemoMonotone
ACTION_CONSTRAINT Log
VIEW View
CHECK_DEADLOCK FALSE
