----------------------------- MODULE MC_Oracle -----------------------------
(* Design-level theorems that tie the oracle down.  TLC checks them on the  *)
(* bounded universe; a wrong transcription of Cox-de Boor, of the blossom   *)
(* or of the knot-vector algebra fails here before it can mislead a         *)
(* conformance check.                                                       *)
EXTENDS Universe
CONSTANTS Breaks, Degs, MaxNpts, ExtraNodes
VARIABLES U, P, phase

vars == <<U, P, phase>>
AllKV == KVs(Breaks, Degs, MaxNpts)
Init == U \in AllKV /\ P = <<>> /\ phase = 0
Next == /\ phase = 0 /\ phase' = 1 /\ UNCHANGED U
        /\ P' \in {Gen1(Npts(U)), Gen2(Npts(U))} \cup {Unit(Npts(U), k) : k \in 1..Npts(U)}
Spec == Init /\ [][Next]_vars

Grid == ParamGrid(U, Deg(U) + 1)

WellFormedUniverse == phase = 1 => IsKnotVector(U) /\ Len(P) = Npts(U)

PartitionOfUnity == phase = 1 => \A u \in Grid : SumSeq(BasisRow(U, Deg(U), u)) = One
NonNegative == phase = 1 => \A u \in Grid : \A j \in 0..Deg(U) :
                 LET row == BasisRow(U, j, u) IN \A i \in 1..Len(row) : Sign(row[i]) >= 0
LocalSupport == phase = 1 => \A u \in Grid : \A j \in 0..Deg(U) :
                 LET row == BasisRow(U, j, u) IN
                 \A i \in 1..Len(row) : (Lt(u, K(U, i - 1)) \/ Lt(K(U, i + j), u)) => row[i] = Zero
EndPoints == phase = 1 => /\ Eval(Poly(U, P), Umin(U)) = P[1]
             /\ Eval(Poly(U, P), Umax(U)) = P[Len(P)]
SpanBrackets == phase = 1 => \A u \in Grid :
                  LET k == Span(U, u) IN
                  IF u = Umax(U) THEN k = Npts(U) - 1
                  ELSE Le(K(U, k), u) /\ Lt(u, K(U, k + 1))
LeftLimitAgrees == phase = 1 => \* inside spans the left limit is the value
   \A u \in Grid \ KnotSet(U) : LeftLimit(Poly(U, P), u) = Eval(Poly(U, P), u)

(* refinement targets: degree +t, extra knot copies *)
Targets ==
  {V \in {SortedUnion(SetDegreeKV(U, Deg(U) + t).kv, ex) : t \in 0..1, ex \in MultisetsUpTo(ExtraNodes, 2)} :
       IsKnotVector(V) /\ Refines(V, U)}

RefinePreserves == phase = 1 => \A V \in Targets : SameFunction(Refine(Poly(U, P), V), Poly(U, P))
RefineRational == phase = 1 => \A V \in Targets :
     LET c == Curve(U, P, WGen1(Npts(U))) IN SameFunction(Refine(c, V), c)
CoarsenInverts == phase = 1 => \A V \in Targets :    \* (tolerant of arithmetic that left the integer range: "unknown" is not "no")
     LET c == Refine(Poly(U, P), V) IN
     /\ Limits(c.U) = Limits(U) /\ Refines(c.U, U) /\ SameFunction(c, CoarsenCandidate(c, U))
     /\ Coarsen(c, U) = Poly(U, P)
CoarsenRefuses == phase = 1 => \* a generic perturbation of a refined curve is not representable
   \A V \in Targets : V # U =>
     LET c  == Refine(Poly(U, P), V)
         c2 == [c EXCEPT !.P[1 + (Len(c.P) \div 2)] = Add(@, One)]
     IN Representable(c2, U) => Refine(Coarsen(c2, U), V) = c2

UnionRefinesBoth == phase = 1 => \A V \in AllKV :
     LET r == UnionKV(U, V) IN
       /\ r.ok /\ IsKnotVector(r.kv) /\ Refines(r.kv, U) /\ Refines(r.kv, V)
       /\ UnionKV(V, U).kv = r.kv
       /\ (V = U => r.kv = U)
(* coarsest: dropping any one interior knot copy, the result no longer refines both *)
UnionIsCoarsest == phase = 1 => \A V \in AllKV :
     LET W == UnionKV(U, V).kv IN
       \A x \in KnotSet(W) \ {Umin(W), Umax(W)} :
          LET W2 == RemoveOne(W, x) IN ~(Refines(W2, U) /\ Refines(W2, V))
(* the definition of Refines is the right one: unit splines over U are exactly representable on U|V *)
UnionRepresents == phase = 1 => \A V \in AllKV :
     LET W == UnionKV(U, V).kv IN SameFunction(Refine(Poly(U, P), W), Poly(U, P))

FastEqualsDef == phase = 1 => \A u \in Grid :
   /\ BasisRow(U, Deg(U), u) = BasisRowDef(U, Deg(U), u)
   /\ Eval(Poly(U, P), u) = EvalDef(Poly(U, P), u)
   /\ Eval(Curve(U, P, WGen1(Npts(U))), u) = EvalDef(Curve(U, P, WGen1(Npts(U))), u)
RatGrid == {Q(n, d) : n \in {-7, -3, -1, 0, 1, 2, 5, 181, -179, 32749}, d \in {1, 2, 3, 7, 173, 32719}}
Big == <<2147483647, 1>>
JavaAgreesWithDef == phase = 1 =>
   /\ \A a, b \in RatGrid \cup {NaR} :
         /\ Lt(a, b) = LtDef(a, b) /\ Le(a, b) = LeDef(a, b)
         /\ Neg(a) = NegDef(a)
         /\ Add(a, b) = AddDef(a, b) /\ Sub(a, b) = SubDef(a, b) /\ Mul(a, b) = MulDef(a, b)
         /\ (b[1] # 0 => Div(a, b) = DivDef(a, b))
   /\ Add(Big, One) = NaR /\ Mul(Big, Two) = NaR /\ Mul(Big, Half) = <<2147483647, 2>>
   /\ Sub(Add(Big, One), One) = NaR /\ Lt(Big, Add(Big, Neg(One)))  = FALSE /\ Lt(Add(Big, Neg(One)), Big)
   /\ Mul(<<65536, 1>>, <<65536, 1>>) = NaR /\ Div(<<65536, 1>>, <<1, 65536>>) = NaR
   /\ Mul(<<65536, 3>>, <<3, 65536>>) = One
(* linearity in the control points; scaling all weights and points (the lemmas behind the huge-rational mode) *)
Linear == phase = 1 =>
   LET n == Npts(U) a == Q(7, 3) b == R(-2) Pq == Gen2(n)
       comb == [i \in 1..n |-> Add(Mul(a, P[i]), Mul(b, Pq[i]))]
       M == Q(5, 7) W == WGen1(n) IN
   \A u \in Grid :
      /\ Eval(Poly(U, comb), u) = Add(Mul(a, Eval(Poly(U, P), u)), Mul(b, Eval(Poly(U, Pq), u)))
      /\ Eval(Curve(U, [i \in 1..n |-> Mul(M, P[i])], [i \in 1..n |-> Mul(M, W[i])]), u) = Mul(M, Eval(Curve(U, P, W), u))
ReparamInvariant == phase = 1 => \A s \in {Two, Q(1, 3)}, a \in {R(-3), Half} :
     LET V == [i \in DOMAIN U |-> Add(Mul(U[i], s), a)] IN
       \A u \in Grid : Eval(Poly(V, P), Add(Mul(u, s), a)) = Eval(Poly(U, P), u)

BreaksQ == <<R(0), R(1), R(3), R(4)>>
DegsQ   == 0..2
ExtraQ  == {R(1), R(2), Half}
BreaksT == <<R(-2), R(-1), R(0), R(2)>>
BreaksT2 == <<R(0), Half, R(2), R(3)>>
DegsT   == 0..3
ExtraT  == {R(-1), R(0), R(1), Q(-1, 2)}
=============================================================================
