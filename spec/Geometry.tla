------------------------------ MODULE Geometry ------------------------------
(* Exact planar geometry of polylines (degree-1 curves with 2-D integer or    *)
(* rational vertices): nearest-point parameters and segment crossings.        *)
(* A polyline is [U |-> degree-1 knot vector, X |-> xs, Y |-> ys].            *)
EXTENDS Calculus

Sq(x) == Mul(x, x)
Dist2(ax, ay, bx, by) == Add(Sq(Sub(ax, bx)), Sq(Sub(ay, by)))

PX(c, u) == Eval(Poly(c.U, c.X), u)
PY(c, u) == Eval(Poly(c.U, c.Y), u)

(* clamp t to [0,1] *)
Clamp01(t) == IF Lt(t, Zero) THEN Zero ELSE IF Lt(One, t) THEN One ELSE t

(* parameter on segment i (between distinct knots k_i, k_i+1 of a C0 polyline with simple knots) *)
(* nearest to point (px,py): exact projection, clamped *)
SegNearest(c, i, px, py) ==
  LET ks == Knots(c.U)
      a  == ks[i]  b == ks[i + 1]
      ax == PX(c, a) ay == PY(c, a)
      bx == LeftLimit(Poly(c.U, c.X), b) by == LeftLimit(Poly(c.U, c.Y), b)
      dx == Sub(bx, ax) dy == Sub(by, ay)
      l2 == Add(Sq(dx), Sq(dy))
      t  == IF IsZero(l2) THEN Zero
            ELSE Clamp01(Div(Add(Mul(Sub(px, ax), dx), Mul(Sub(py, ay), dy)), l2))
      qx == Add(ax, Mul(t, dx)) qy == Add(ay, Mul(t, dy))
  IN [u |-> Add(a, Mul(t, Sub(b, a))), d2 |-> Dist2(qx, qy, px, py)]

NearestSet(c, px, py) ==
  LET n    == Len(Knots(c.U)) - 1
      cand == {SegNearest(c, i, px, py) : i \in 1..n}
  IN IF \E r \in cand : IsNaR(r.d2) \/ IsNaR(r.u) THEN [d2 |-> NaR, us |-> <<>>]     \* arithmetic left the range
     ELSE LET m == CHOOSE x \in {r.d2 : r \in cand} : \A y \in {r.d2 : r \in cand} : Le(x, y)
          IN [d2 |-> m, us |-> SeqOfSet({r.u : r \in {q \in cand : q.d2 = m}})]

(* proper (transversal, interior or end-touching excluded) crossing of segment i of A and j of B *)
Cross(ux, uy, vx, vy) == Sub(Mul(ux, vy), Mul(uy, vx))
SegCross(A, i, B, j) ==
  LET ka == Knots(A.U) kb == Knots(B.U)
      a0 == ka[i] a1 == ka[i + 1] b0 == kb[j] b1 == kb[j + 1]
      p0x == PX(A, a0) p0y == PY(A, a0)
      p1x == LeftLimit(Poly(A.U, A.X), a1) p1y == LeftLimit(Poly(A.U, A.Y), a1)
      q0x == PX(B, b0) q0y == PY(B, b0)
      q1x == LeftLimit(Poly(B.U, B.X), b1) q1y == LeftLimit(Poly(B.U, B.Y), b1)
      rx == Sub(p1x, p0x) ry == Sub(p1y, p0y)
      sx == Sub(q1x, q0x) sy == Sub(q1y, q0y)
      den == Cross(rx, ry, sx, sy)
  IN IF IsZero(den)
     THEN (IF IsZero(Cross(Sub(q0x, p0x), Sub(q0y, p0y), rx, ry)) THEN [kind |-> "collinear"] ELSE [kind |-> "apart"])
     ELSE LET t == Div(Cross(Sub(q0x, p0x), Sub(q0y, p0y), sx, sy), den)
              s == Div(Cross(Sub(q0x, p0x), Sub(q0y, p0y), rx, ry), den)
          IN IF Lt(Zero, t) /\ Lt(t, One) /\ Lt(Zero, s) /\ Lt(s, One)
             THEN [kind |-> "cross", t |-> Add(a0, Mul(t, Sub(a1, a0))), u |-> Add(b0, Mul(s, Sub(b1, b0)))]
             ELSE IF Lt(t, Zero) \/ Lt(One, t) \/ Lt(s, Zero) \/ Lt(One, s)
             THEN [kind |-> "apart"]
             ELSE [kind |-> "touch"]          \* meets at an end point of a segment: outside the guaranteed class

Crossings(A, B) ==
  LET na == Len(Knots(A.U)) - 1 nb == Len(Knots(B.U)) - 1
      all == {SegCross(A, i, B, j) : i \in 1..na, j \in 1..nb}
  IN [inclass |-> \A r \in all : r.kind \in {"cross", "apart"},   \* no end-point touches, no collinear pieces
      pairs |-> {<<r.t, r.u>> : r \in {x \in all : x.kind = "cross"}}]
=============================================================================
