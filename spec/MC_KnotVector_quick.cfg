SPECIFICATION Spec
CONSTANTS
  ArgsOf <- MCArgs
  InitHeaps <- MCInit
  MaxDepth = 2
  Breaks <- BreaksQ
  Degs <- DegsQ
  MaxNpts = 5
  CtorLen = 6
  Rich = FALSE
INVARIANT WellFormed
PROPERTY FailedIsNoOp
PROPERTY UnionProps
ACTION_CONSTRAINT Log
VIEW View
CHECK_DEADLOCK FALSE
