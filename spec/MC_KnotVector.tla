--------------------------- MODULE MC_KnotVector ---------------------------
(* C03 (and the in-place forms of C17): the KnotVector history machine and  *)
(* the constructor sweep.                                                   *)
EXTENDS Nurbs

CONSTANTS Breaks, Degs, MaxNpts, CtorLen, Rich, Acts     \* Acts = {} means every action

AllKV == KVs(Breaks, Degs, MaxNpts)
NaN == <<0, 0>>
Alphabet == {R(0), R(1), R(2)}
CtorSeqs == SeqsUpTo(Alphabet, CtorLen)
       \cup {<<R(0), NaN>>, <<R(0), R(0), NaN, R(1), R(1)>>, <<R(0), R(0), Half, R(1), R(1)>>,
             <<R(0), R(0), Half, Half, Half, R(1), R(1)>>, <<R(1), R(1), R(0), R(0)>>}

MCInit == (IF Acts = {} THEN {[a |-> NoObj]} ELSE {}) \cup {[a |-> KvObj(U)] : U \in AllKV}

Others(U) == {V \in AllKV : Limits(V) = Limits(U) /\ (Rich \/ Acts # {} \/ Npts(V) <= 4)}
             \cup {<<R(0), R(0), R(7), R(7)>>}

NodePool(U) == KnotSet(U) \cup Midpoints(U) \cup Outside(U)

MCArgs(name, h, dep) ==
  IF Acts # {} /\ name \notin Acts THEN {} ELSE
  LET o == h["a"] IN
  IF o.kind = "none" THEN
     IF name = "KvNew"
     THEN {[obj |-> "a", seq |-> s, deg |-> -1] : s \in CtorSeqs}
          \cup {[obj |-> "a", seq |-> s, deg |-> d] : s \in {t \in CtorSeqs : Len(t) \in 2..5}, d \in 0..2}
     ELSE {}
  ELSE LET U == o.U IN
  CASE name = "KvInsert"    -> {[obj |-> "a", nodes |-> n, form |-> f] :
                                   n \in MultisetsUpTo(NodePool(U), IF Rich THEN 2 ELSE 1) \ {<<>>}, f \in {"insert", "iadd"}}
                                \cup {[obj |-> "a", nodes |-> <<Umin(U), Umax(U)>>, form |-> "insert"],
                                      [obj |-> "a", nodes |-> <<Umax(U), Umin(U)>>, form |-> "iadd"]}
    [] name = "KvRemove"    -> {[obj |-> "a", nodes |-> n, form |-> f] :
                                   n \in MultisetsUpTo(KnotSet(U) \cup {Q(5, 7)}, IF Rich THEN 2 ELSE 1) \ {<<>>}, f \in {"remove", "isub"}}
                                \cup {[obj |-> "a", nodes |-> <<Umin(U), Umax(U)>>, form |-> "remove"]}
    [] name = "KvShift"     -> {[obj |-> "a", by |-> b, form |-> f] : b \in {One, Q(-1, 2)}, f \in {"shift", "iadd"}}
    [] name = "KvScale"     -> {[obj |-> "a", by |-> b, form |-> "scale"] : b \in {Two, Q(1, 3), Zero, R(-1)}}
                                \cup {[obj |-> "a", by |-> Two, form |-> "imul"], [obj |-> "a", by |-> Two, form |-> "itruediv"]}
    [] name = "KvNormalize" -> {[obj |-> "a"]}
    [] name = "KvSetDegree" -> {[obj |-> "a", deg |-> d] : d \in 0..(Deg(U) + 2)}
    [] name = "KvIOr"       -> {[obj |-> "a", other |-> V] : V \in Others(U)}
    [] name = "KvIAnd"      -> {[obj |-> "a", other |-> V] : V \in {W \in Others(U) : Deg(W) = Deg(U)}}
    [] name = "KvOr"        -> {[obj |-> "a", other |-> V] : V \in Others(U)}
    [] name = "KvAnd"       -> {[obj |-> "a", other |-> V] : V \in {W \in Others(U) : Deg(W) = Deg(U)}}
    [] name = "KvSplit"     -> {[obj |-> "a", nodes |-> n] : n \in SeqsUpTo(NodePool(U), IF Rich THEN 2 ELSE 1)}
    [] name = "KvConvert"   -> {[obj |-> "a", cls |-> c] : c \in {"int", "Fraction"}}
    [] name = "KvCopy"      -> {[obj |-> "a"]}
    [] name = "KvValueOp"   -> {[obj |-> "a", op |-> vo, nodes |-> n, by |-> Zero] :
                                   vo \in {"add_nodes", "sub_nodes"}, n \in MultisetsUpTo(NodePool(U), 1) \ {<<>>}}
                                \cup {[obj |-> "a", op |-> vo, nodes |-> <<>>, by |-> b] :
                                   vo \in {"add", "sub", "mul", "rmul", "div"}, b \in {Two, Q(-1, 2), Zero, Q(1, 3)}}
    [] name = "KvEq"        -> {[obj |-> "a", seq |-> x] :
                                   x \in {U, InsertKV(U, <<Mid(Umin(U), Umax(U))>>).kv, ShiftKV(U, One).kv,
                                          <<Umax(U), Umin(U)>>, <<Umin(U), Umax(U)>>, <<>>, <<Umin(U)>>,
                                          SetDegreeKV(U, Deg(U) + 1).kv}}
    [] name = "FnBasis"     -> IF dep = 0 THEN {} ELSE
                               {[obj |-> "a", weights |-> <<>>, j |-> Deg(U), u |-> u] : u \in ParamGrid(U, 1)}
    [] OTHER -> {}

BreaksQ == <<R(0), R(1), R(3), R(4)>>
Breaks5 == <<R(0), R(1), Q(3, 2), R(3), R(4)>>            \* three interior break points
Breaks6 == <<R(0), Q(1, 2), R(1), Q(3, 2), R(3), R(4)>>   \* four
BreaksT == <<R(-2), R(-1), R(0), R(2)>>
DegsQ == 0..2
DegsT == 0..3
=============================================================================
