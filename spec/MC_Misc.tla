------------------------------ MODULE MC_Misc ------------------------------
(* Instances whose scenarios do not live in a curve heap: generators (C18),   *)
(* the quadrature memo machine (C10), polyline geometry (C19, C20).           *)
EXTENDS Nurbs

CONSTANTS Acts, MaxP, MaxExtra, MemoN, GeoRich

(* the scenarios of this module do not live in the heap; the heap only carries a shard number so that  *)
(* TLC's workers share the enumeration                                                                 *)
NShards == 16
MCInit == {[a |-> NoObj, s |-> [kind |-> "shard", i |-> i]] : i \in 0..(NShards - 1)}
HashPL(c) == (c.X[1][1] + 3 * c.Y[1][1] + 5 * c.X[Len(c.X)][1] + 7 * c.Y[Len(c.Y)][1] + 11 * Len(c.X)) % NShards
Mine(h, c) == HashPL(c) = h["s"].i

WeightSeqs == SeqsUpTo({One, Two, Half, Q(1, 3), Q(2, 7)}, 3) \ {<<>>}

Fns == {"nodes_closed", "nodes_open", "nodes_cheby", "nodes_gauss", "w_closed", "w_open", "w_cheby", "w_gauss",
        "interp_closed", "interp_closed_float", "interp_open", "interp_open_float"}

(* polylines: simple interior knots, integer vertices *)
PolyU(n) == IntegerKV(1, n)                     \* n vertices, knots 0..n-1
PL(xs, ys) == [U |-> PolyU(Len(xs)), X |-> [i \in 1..Len(xs) |-> R(xs[i])], Y |-> [i \in 1..Len(ys) |-> R(ys[i])]]
Lines == {PL(<<0, 4>>, <<0, 2>>), PL(<<0, 2, 4>>, <<0, 3, 0>>), PL(<<0, 3, 3, 0>>, <<0, 0, 2, 2>>),
          PL(<<-1, 1, 2, 4, 5>>, <<1, -1, 2, -1, 1>>), PL(<<0, 0>>, <<0, 3>>), PL(<<0, 2, 2>>, <<0, 0, 3>>)}
         \cup (IF GeoRich THEN {PL(<<0, 1, 3, 4, 6>>, <<0, 2, 2, 0, 1>>), PL(<<3, 0, 3>>, <<0, 1, 2>>)} ELSE {})
QueryPts == {<<Q(x, 2), Q(y, 2)>> : x \in (IF GeoRich THEN -3..11 ELSE {-2, 0, 1, 3, 4, 7, 9}),
                                     y \in (IF GeoRich THEN -3..7 ELSE {-2, 0, 1, 3, 5})}
Others == {PL(<<1, 1>>, <<-1, 4>>), PL(<<-1, 5>>, <<1, 1>>), PL(<<-1, 3>>, <<-1, 4>>), PL(<<5, 7>>, <<5, 6>>),
           PL(<<0, 4, 0>>, <<3, 1, -1>>), PL(<<5, 6>>, <<0, 3>>), PL(<<1, 3, 2>>, <<1, 2, -2>>), PL(<<4, -1>>, <<4, 3>>)}

(* all segments between points of a small grid placed away from the origin (equal extents, axis-parallel   *)
(* pieces, negative coordinates all occur) *)
GridPts == {<<x, y>> : x \in {-3, -1, 1, 3}, y \in (IF GeoRich THEN {-3, -2, 0, 2} ELSE {-2, 0, 2})}
GridSegs == {PL(<<p[1], q[1]>>, <<p[2], q[2]>>) : p, q \in GridPts} \ {PL(<<p[1], p[1]>>, <<p[2], p[2]>>) : p \in GridPts}
(* polylines that pass twice through one point (0,0) resp. (1,0): a segment through that point crosses two pieces *)
(* at the SAME parameter of the segment - two different crossings (t, u1), (t, u2)                               *)
Bowties == {PL(<<-2, 2, 2, -2>>, <<-3, 3, -3, 3>>), PL(<<-1, 3, 3, -1>>, <<-2, 2, -2, 2>>)}
Zigzags == {PL(<<-3, -1, 1, 3>>, <<-2, 2, -2, 2>>), PL(<<-3, 3, -3, 3>>, <<-3, -1, 1, 3>>), PL(<<1, 3, 1, 3>>, <<-3, -3, -1, -1>>)}
           \cup Bowties

(* points ON the polyline, very close to (but not at) an interior vertex: distances to the two neighbouring  *)
(* segments differ by ~1e-3, far more than the 1e-6 of the equidistance filter                                *)
NearVertexPts(c) ==
  LET ks == Knots(c.U) IN
  {<<PX(c, u), PY(c, u)>> : u \in {Sub(ks[i], Mul(Sub(ks[i], ks[i - 1]), Q(1, 1024))) : i \in 2..(Len(ks) - 1)}
                                   \cup {Add(ks[i], Mul(Sub(ks[i + 1], ks[i]), Q(1, 2048))) : i \in 2..(Len(ks) - 1)}}

(* planar curves of degree 2 and 3 (polynomial and rational), integer control points *)
PC(U, xs, ys, ws) == [U |-> U, X |-> [i \in 1..Len(xs) |-> R(xs[i])], Y |-> [i \in 1..Len(ys) |-> R(ys[i])],
                      W |-> [i \in 1..Len(ws) |-> R(ws[i])]]
B2 == BezierKV(2)
B3 == BezierKV(3)
S2 == <<Zero, Zero, Zero, Half, One, One, One>>
Arcs == {PC(B2, <<0, 2, 4>>, <<0, 3, 0>>, <<>>), PC(B2, <<1, 1, 0>>, <<0, 1, 1>>, <<2, 1, 2>>),
         PC(B3, <<0, 1, 3, 4>>, <<0, 2, -2, 0>>, <<>>), PC(S2, <<0, 1, 3, 4>>, <<0, 2, 2, 0>>, <<>>),
         PC(S2, <<0, 2, 2, 0>>, <<0, 0, 2, 2>>, <<1, 2, 2, 1>>), PC(B2, <<-3, -1, -3>>, <<-3, -2, -1>>, <<>>)}
FarArcs == {PC(B2, <<6, 8, 10>>, <<5, 9, 5>>, <<>>), PC(B3, <<-9, -8, -7, -6>>, <<1, 5, -1, 2>>, <<>>),
            PC(B2, <<0, 2, 4>>, <<-9, -5, -9>>, <<1, 3, 1>>)}
OnGrid(c) == ParamGrid(c.U, 2)
(* polylines 64 times larger on the same unit knot spans: a parameter step of 2^-21 (below the 1e-6 of the Newton    *)
(* iteration) is a distance of 3e-5 and more (far above the 1e-6 of the result)                                      *)
BigLines == {[U |-> x.U, X |-> [i \in DOMAIN x.X |-> Mul(R(64), x.X[i])], Y |-> [i \in DOMAIN x.Y |-> Mul(R(64), x.Y[i])], W |-> <<>>]
               : x \in {y \in Zigzags \cup Lines : Len(y.X) >= 3}}
(* the same polylines traversed slowly: knots multiplied by 2^18 (time stamps), speeds of 1e-5 per unit of parameter *)
SlowLines == {[U |-> ScaleKV(x.U, R(262144)).kv, X |-> x.X, Y |-> x.Y, W |-> <<>>] : x \in {y \in Zigzags \cup Lines : Len(y.X) >= 3}}
SpanMids(c) == LET ks == Knots(c.U) IN {Mid(ks[i], ks[i + 1]) : i \in 1..(Len(ks) - 1)}
BesideKnots(c) == LET ks == Knots(c.U) IN
  {Sub(ks[i], Q(1, 2097152)) : i \in 2..(Len(ks) - 1)} \cup {Add(ks[i], Q(1, 2097152)) : i \in 2..(Len(ks) - 1)}

MCArgs(name, h, dep) ==
  IF name \notin Acts THEN {} ELSE
  IF name \in {"KvGen", "MemoRequest"} /\ h["s"].i # 0 THEN {} ELSE
  CASE name = "KvGen" ->
         {[obj |-> "a", kind |-> "bezier", p |-> p, n |-> p + 1, w |-> <<>>] : p \in 0..MaxP}
         \cup {[obj |-> "a", kind |-> k, p |-> p, n |-> p + 1 + e, w |-> <<>>] :
                   k \in {"integer", "uniform"}, p \in 0..MaxP, e \in 0..MaxExtra}
         \cup {[obj |-> "a", kind |-> "weight", p |-> p, n |-> 0, w |-> w] : p \in 0..MaxP, w \in WeightSeqs}
    [] name = "MemoRequest" ->
         {[fn |-> f, n |-> n] : f \in Fns, n \in 1..MemoN} \ {[fn |-> f, n |-> 1] : f \in {"nodes_closed", "w_closed", "interp_closed", "interp_closed_float"}}
    [] name = "GeoProjectOn" ->
         UNION {{[curve |-> c, u0 |-> u] : u \in OnGrid(c)} : c \in {x \in Arcs : Mine(h, x)}}
         \cup UNION {{[curve |-> c, u0 |-> u] : u \in BesideKnots(c)} : c \in {x \in BigLines : Mine(h, x)}}
         \cup UNION {{[curve |-> c, u0 |-> u] : u \in SpanMids(c)} : c \in {x \in SlowLines : Mine(h, x)}}
    [] name = "GeoIntersectCurved" ->
         {[A |-> A, B |-> B] : A \in {x \in Arcs \cup FarArcs : Mine(h, x)}, B \in Arcs \cup FarArcs}
    [] name = "GeoLength" ->
         \* weight u^k, rule and node count: only combinations whose rule is exact for u^k on a span (the speed is
         \* constant there); the closed rule samples span ends, where the derivative of a polyline jumps: not used
         {[curve |-> c, k |-> kn[1], nnodes |-> kn[2], method |-> m] :
             c \in {x \in Lines \cup Zigzags : Mine(h, x)}, kn \in {<<0, 0>>, <<1, 0>>, <<1, 3>>, <<2, 3>>, <<2, 4>>},
             m \in {"default", "open-newton-cotes", "chebyshev", "gauss-legendre"}}
    [] name = "GeoProject" ->
         UNION {{[curve |-> c, px |-> q[1], py |-> q[2], elev |-> e] : q \in QueryPts,
                                                                e \in (IF Len(c.X) = 2 THEN {0, 1} ELSE {0})}
                : c \in {x \in Lines : Mine(h, x)}}
         \cup UNION {{[curve |-> c, px |-> q[1], py |-> q[2], elev |-> 0] : q \in NearVertexPts(c)}
                      : c \in {x \in Lines \cup Zigzags : Mine(h, x) /\ Len(x.X) >= 3}}
         \cup {[curve |-> c, px |-> Q(x, 2), py |-> Q(y, 2), elev |-> 0] : c \in {x \in Zigzags \cup (IF GeoRich THEN GridSegs ELSE {}) : Mine(h, x)},
                                                                  x \in {-9, -4, 0, 1, 5, 8}, y \in {-7, -2, 0, 3, 6}}
    [] name = "GeoIntersect" ->
         UNION {{[A |-> A, B |-> B, elev |-> e] : B \in {x \in Others \cup Lines : TRUE},
                                            e \in (IF Len(A.X) = 2 THEN {0, 1} ELSE {0})}
                : A \in {x \in Lines : Mine(h, x)}}
         \cup {[A |-> A, B |-> B, elev |-> 0] : A \in {x \in GridSegs : Mine(h, x)}, B \in GridSegs}
         \cup {[A |-> A, B |-> B, elev |-> 0] : A \in {x \in Zigzags : Mine(h, x)}, B \in GridSegs \cup Zigzags}
         \cup {[A |-> A, B |-> B, elev |-> 0] : A \in {x \in GridSegs : Mine(h, x)}, B \in Bowties}
         \* the same geometry traversed 32768 times faster by one operand (its knots divided by 2^15): the two
         \* derivatives differ by 4-5 orders of magnitude, the crossings are as transversal as before
         \cup {[A |-> A, B |-> [B EXCEPT !.U = ScaleKV(B.U, Q(1, 32768)).kv], elev |-> 0] :
                  A \in {x \in Zigzags : Mine(h, x)}, B \in {y \in GridSegs : y.X[1] = R(-3)}}
         \* both operands traversed slowly (knots multiplied by 1024): the Newton system shrinks by 1024^4, the crossings stay
         \cup {[A |-> [A EXCEPT !.U = ScaleKV(A.U, R(1024)).kv], B |-> [B EXCEPT !.U = ScaleKV(B.U, R(1024)).kv], elev |-> 0] :
                  A \in {x \in Zigzags : Mine(h, x)}, B \in {y \in GridSegs : y.X[1] = R(-3)}}
         \cup {[A |-> [A EXCEPT !.U = ScaleKV(A.U, Q(1, 32768)).kv], B |-> B, elev |-> 0] :
                  A \in {x \in Zigzags : Mine(h, x)}, B \in {y \in GridSegs : y.X[1] = R(-3)}}
    [] OTHER -> {}

(* C20 generator sanity: every generated pair is in the guaranteed class (no end-point touches,   *)
(* no collinear overlaps); pairs outside it are skipped by the harness via ret.val               *)
=============================================================================
