SPECIFICATION Spec
CONSTANTS
  ArgsOf <- MCArgs
  InitHeaps <- MCInit
  MaxDepth = 2
  Breaks <- BreaksQ
  Degs <- DegsT
  MaxNpts = 7
  CtorLen = 2
  Rich = TRUE
  Acts = {}
INVARIANT WellFormed
PROPERTY FailedIsNoOp
PROPERTY UnionProps

ACTION_CONSTRAINT Log
VIEW View
CHECK_DEADLOCK FALSE
