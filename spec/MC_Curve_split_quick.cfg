SPECIFICATION Spec
CONSTANTS
  ArgsOf <- MCArgs
  InitHeaps <- MCInit2
  MaxDepth = 1
  Breaks <- BreaksQ
  Degs <- DegsQ
  MaxNpts = 4
  Acts = {"CvSplit", "CvSplitJoin"}
  PtKinds = {"gen"}
  WtKinds = {"none", "gen", "const"}
  ExtraNodes <- Extra0
  NodeSize = 2
  Scenario = "single"
  PrepDepth = 0
  OtherDegs <- DegsQ
  OtherMaxNpts = 4
INVARIANT WellFormed
PROPERTY FailedIsNoOp
PROPERTY SplitRestricts
ACTION_CONSTRAINT Log
VIEW View
CHECK_DEADLOCK FALSE
