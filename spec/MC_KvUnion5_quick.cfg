SPECIFICATION Spec
CONSTANTS
  ArgsOf <- MCArgs
  InitHeaps <- MCInit
  MaxDepth = 1
  Breaks <- Breaks5
  Degs <- DegsQ
  MaxNpts = 7
  CtorLen = 2
  Rich = FALSE
  Acts = {"KvOr", "KvAnd", "KvIOr", "KvIAnd"}
INVARIANT WellFormed
PROPERTY FailedIsNoOp
PROPERTY UnionProps
PROPERTY UnionIsCoarsest
PROPERTY InterProps
ACTION_CONSTRAINT Log
VIEW View
CHECK_DEADLOCK FALSE
