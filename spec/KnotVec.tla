------------------------------ MODULE KnotVec ------------------------------
(* Knot vectors as sequences of rationals (module Rat).  The code indexes  *)
(* from 0, TLA+ sequences from 1: K(U, i) is the code's U[i].              *)
(* This module is the reference semantics of every KnotVector operation of *)
(* compmec/nurbs (knotspace.py KnotVector, heavy.py ImmutableKnotVector).  *)
EXTENDS Rat, TLC

K(U, i) == U[i + 1]

IsSorted(U) == \A i \in 1..(Len(U) - 1) : Le(U[i], U[i + 1])

MultOf(U, x) == Cardinality({i \in DOMAIN U : U[i] = x})

LeadMult(U)  == MultOf(U, U[1])
TrailMult(U) == MultOf(U, U[Len(U)])

(* Well-formed clamped vector, degree inferred from the leading run.       *)
IsKnotVector(U) ==
  /\ Len(U) >= 2
  /\ IsSorted(U)
  /\ U[1] # U[Len(U)]
  /\ LET d == LeadMult(U) - 1 IN
       /\ TrailMult(U) = d + 1
       /\ \A i \in DOMAIN U : MultOf(U, U[i]) <= d + 1

(* Same with an explicitly requested degree (constructor's 2nd argument).  *)
IsKnotVectorDeg(U, d) == IsKnotVector(U) /\ LeadMult(U) = d + 1

Deg(U)   == LeadMult(U) - 1
Npts(U)  == Len(U) - Deg(U) - 1
Umin(U)  == U[1]
Umax(U)  == U[Len(U)]
Limits(U) == <<Umin(U), Umax(U)>>
KnotSet(U) == {U[i] : i \in DOMAIN U}

(* ascending sequence of a finite set of rationals *)
RECURSIVE SeqOfSet(_)
SeqOfSet(S) ==
  IF S = {} THEN <<>>
  ELSE LET m == CHOOSE x \in S : \A y \in S : Le(x, y) IN <<m>> \o SeqOfSet(S \ {m})

Knots(U) == SeqOfSet(KnotSet(U))               \* distinct knots, ascending

Valid(U, u) == Le(Umin(U), u) /\ Le(u, Umax(U))

(* span(u) = k  <=>  U[k] <= u < U[k+1], or k = npts-1 at umax  (0-based)  *)
Span(U, u) ==
  IF u = Umax(U) THEN Npts(U) - 1
  ELSE CHOOSE k \in 0..(Len(U) - 2) : Le(K(U, k), u) /\ Lt(u, K(U, k + 1))

Mult(U, u) == MultOf(U, u)

(* last non-empty span: the support of the left limit at umax              *)
LastSpan(U) == Len(U) - TrailMult(U) - 1

(* ---------------- multiset operations ---------------------------------- *)
RECURSIVE InsertSorted(_, _)
InsertSorted(U, x) ==                            \* U sorted; x goes after equals
  IF U = <<>> THEN <<x>>
  ELSE IF Lt(x, Head(U)) THEN <<x>> \o U
  ELSE <<Head(U)>> \o InsertSorted(Tail(U), x)

RECURSIVE SortedUnion(_, _)
SortedUnion(U, nodes) ==
  IF nodes = <<>> THEN U ELSE SortedUnion(InsertSorted(U, Head(nodes)), Tail(nodes))

SortRat(s) == SortedUnion(<<>>, s)

RECURSIVE RemoveOne(_, _)
RemoveOne(U, x) ==                               \* first occurrence; x must occur
  IF Head(U) = x THEN Tail(U) ELSE <<Head(U)>> \o RemoveOne(Tail(U), x)

RECURSIVE CanRemove(_, _)
CanRemove(U, nodes) ==
  IF nodes = <<>> THEN TRUE
  ELSE /\ \E i \in DOMAIN U : U[i] = Head(nodes)
       /\ CanRemove(RemoveOne(U, Head(nodes)), Tail(nodes))

RECURSIVE RemoveAll(_, _)
RemoveAll(U, nodes) ==
  IF nodes = <<>> THEN U ELSE RemoveAll(RemoveOne(U, Head(nodes)), Tail(nodes))

Repeat(x, n) == [i \in 1..n |-> x]
RECURSIVE Flatten(_)
Flatten(ss) == IF ss = <<>> THEN <<>> ELSE Head(ss) \o Flatten(Tail(ss))

(* Build a vector from distinct ascending knots and their multiplicities   *)
FromMults(ks, ms) == Flatten([i \in 1..Len(ks) |-> Repeat(ks[i], ms[i])])

(* ---------------- operation outcomes ----------------------------------- *)
(* Every operation returns [ok |-> BOOLEAN, kv |-> the vector afterwards]. *)
(* On refusal kv is the unchanged vector (atomicity is part of the spec).  *)
Ok(V)     == [ok |-> TRUE,  kv |-> V]
Refuse(U) == [ok |-> FALSE, kv |-> U]

IsNum(x) == x[2] # 0                       \* <<0,0>> stands for a non-numeric entry
AllNum(s) == \A i \in DOMAIN s : IsNum(s[i])
NewKV(s)         == IF AllNum(s) /\ IsKnotVector(s) THEN Ok(s) ELSE Refuse(<<>>)
NewKVDeg(s, d)   == IF AllNum(s) /\ IsKnotVectorDeg(s, d) THEN Ok(s) ELSE Refuse(<<>>)

InsertKV(U, nodes) ==
  LET V == SortedUnion(U, nodes) IN
  IF (\A i \in DOMAIN nodes : Valid(U, nodes[i])) /\ IsKnotVector(V)
  THEN Ok(V) ELSE Refuse(U)

RemoveKV(U, nodes) ==
  IF CanRemove(U, nodes) /\ IsKnotVector(RemoveAll(U, nodes))
  THEN Ok(RemoveAll(U, nodes)) ELSE Refuse(U)

ShiftKV(U, a)  == Ok([i \in DOMAIN U |-> Add(U[i], a)])
ScaleKV(U, s)  == IF Sign(s) > 0 THEN Ok([i \in DOMAIN U |-> Mul(U[i], s)]) ELSE Refuse(U)
NormalizeKV(U) ==
  LET w == Sub(Umax(U), Umin(U)) IN Ok([i \in DOMAIN U |-> Div(Sub(U[i], Umin(U)), w)])

(* degree setter: every distinct knot's multiplicity changes by d - Deg    *)
SetDegreeKV(U, d) ==
  LET ks == Knots(U)
      df == d - Deg(U)
      V  == FromMults(ks, [i \in 1..Len(ks) |-> MultOf(U, ks[i]) + df])
  IN IF d >= 0 /\ (\A i \in 1..Len(ks) : MultOf(U, ks[i]) + df >= 0) /\ IsKnotVector(V)
     THEN Ok(V) ELSE Refuse(U)

(* U | V : coarsest common refinement.  Degree max(p,q); at each knot the  *)
(* LOWER of the two continuity orders  p - mU  and  q - mV  survives, i.e. *)
(* multiplicity max(mU + pm - p, mV + pm - q) where a knot absent from a   *)
(* vector imposes nothing (continuity "infinite").                         *)
UnionKV(U, V) ==
  IF Limits(U) # Limits(V) THEN Refuse(U)
  ELSE LET p  == Deg(U)
           q  == Deg(V)
           pm == IF p > q THEN p ELSE q
           ks == SeqOfSet(KnotSet(U) \cup KnotSet(V))
           mu(x) == IF MultOf(U, x) = 0 THEN 0 ELSE MultOf(U, x) + pm - p
           mv(x) == IF MultOf(V, x) = 0 THEN 0 ELSE MultOf(V, x) + pm - q
           mx(x) == IF mu(x) > mv(x) THEN mu(x) ELSE mv(x)
       IN Ok(FromMults(ks, [i \in 1..Len(ks) |-> mx(ks[i])]))

(* U & V for equal degrees: per-knot minimum multiplicity                  *)
InterKV(U, V) ==
  IF Limits(U) # Limits(V) \/ Deg(U) # Deg(V) THEN Refuse(U)
  ELSE LET ks == SeqOfSet(KnotSet(U) \cup KnotSet(V))
           mn(x) == IF MultOf(U, x) < MultOf(V, x) THEN MultOf(U, x) ELSE MultOf(V, x)
       IN Ok(FromMults(ks, [i \in 1..Len(ks) |-> mn(ks[i])]))

(* V refines U: same interval, degree >= and at every knot of U continuity *)
(* of V is not higher.                                                     *)
Refines(V, U) ==
  /\ Limits(U) = Limits(V)
  /\ Deg(V) >= Deg(U)
  /\ \A x \in KnotSet(U) : MultOf(V, x) >= MultOf(U, x) + Deg(V) - Deg(U)

(* split at cut points: one clamped vector per sub-interval between        *)
(* consecutive distinct cuts (ends and repeats ignored)                    *)
Cuts(U, nodes) == SeqOfSet({nodes[i] : i \in DOMAIN nodes} \cup {Umin(U), Umax(U)})
SubSeqWhere(U, a, b) == SelectSeq(U, LAMBDA x : Lt(a, x) /\ Lt(x, b))
SplitKV(U, nodes) ==
  LET cs == Cuts(U, nodes) p == Deg(U) IN
  [i \in 1..(Len(cs) - 1) |->
     Repeat(cs[i], p + 1) \o SubSeqWhere(U, cs[i], cs[i + 1]) \o Repeat(cs[i + 1], p + 1)]

(* generators *)
BezierKV(p)      == Repeat(Zero, p + 1) \o Repeat(One, p + 1)
IntegerKV(p, n)  == Repeat(Zero, p) \o [i \in 1..(n - p + 1) |-> R(i - 1)] \o Repeat(R(n - p), p)
UniformKV(p, n)  == NormalizeKV(IntegerKV(p, n)).kv
RECURSIVE PrefixSums(_, _)
PrefixSums(w, acc) == IF w = <<>> THEN <<acc>> ELSE <<acc>> \o PrefixSums(Tail(w), Add(acc, Head(w)))
WeightKV(p, w)   == LET ps == PrefixSums(w, Zero) IN
                    Repeat(Zero, p) \o ps \o Repeat(ps[Len(ps)], p)
=============================================================================
