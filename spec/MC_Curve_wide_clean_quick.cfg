SPECIFICATION Spec
CONSTANTS
  ArgsOf <- MCArgs
  InitHeaps <- MCInit2
  MaxDepth = 2
  Breaks <- BreaksW
  Degs <- DegsW
  MaxNpts = 9
  Acts = {"CvKnotInsert", "CvClean"}
  PtKinds = {"gen"}
  WtKinds = {"none"}
  ExtraNodes <- Extra0
  NodeSize = 1
  Scenario = "history"
  PrepDepth = 1
  OtherDegs <- DegsQ
  OtherMaxNpts = 4
INVARIANT WellFormed
PROPERTY FailedIsNoOp
PROPERTY CleanProps
ACTION_CONSTRAINT Log
VIEW View
CHECK_DEADLOCK FALSE
