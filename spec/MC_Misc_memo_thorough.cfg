SPECIFICATION Spec
CONSTANTS
  ArgsOf <- MCArgs
  InitHeaps <- MCInit
  MaxDepth = 3
  Acts = {"MemoRequest"}
  MaxP = 1
  MaxExtra = 1
  MemoN = 5
  GeoRich = FALSE
PROPERTY MemoMonotone
ACTION_CONSTRAINT Log
VIEW View
CHECK_DEADLOCK FALSE
