SPECIFICATION Spec
CONSTANTS
  ArgsOf <- MCArgs
  InitHeaps <- MCInit2
  MaxDepth = 3
  Breaks <- BreaksQ
  Degs <- DegsQ
  MaxNpts = 4
  Acts = {"CvKnotInsert", "CvDegreeIncrease", "CvClean"}
  PtKinds = {"gen", "homlin", "bump", "negw"}
  WtKinds = {"none", "gen"}
  ExtraNodes <- Extra0
  NodeSize = 1
  Scenario = "history"
  PrepDepth = 1
  OtherDegs <- DegsQ
  OtherMaxNpts = 4
INVARIANT WellFormed
PROPERTY FailedIsNoOp
PROPERTY CleanProps
ACTION_CONSTRAINT Log
VIEW View
CHECK_DEADLOCK FALSE
