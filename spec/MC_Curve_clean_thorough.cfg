SPECIFICATION Spec
CONSTANTS
  ArgsOf <- MCArgs
  InitHeaps <- MCInit2
  MaxDepth = 4
  Breaks <- BreaksQ
  Degs <- DegsQ
  MaxNpts = 4
  Acts = {"CvKnotInsert", "CvDegreeIncrease", "CvClean"}
  PtKinds = {"gen", "homlin", "bump"}
  WtKinds = {"none", "gen", "const"}
  ExtraNodes <- Extra0
  NodeSize = 1
  Scenario = "history"
  PrepDepth = 2
  OtherDegs <- DegsQ
  OtherMaxNpts = 4
INVARIANT WellFormed
PROPERTY FailedIsNoOp
PROPERTY CleanProps
ACTION_CONSTRAINT Log
VIEW View
CHECK_DEADLOCK FALSE
