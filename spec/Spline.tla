------------------------------- MODULE Spline -------------------------------
(* Meaning of a curve: the textbook Cox - de Boor definition over exact     *)
(* rationals.  A curve is a record [U |-> knot vector, P |-> control points *)
(* (rationals), W |-> weights or <<>> for a polynomial curve].              *)
EXTENDS KnotVec

(* N_{i,j}(u), right-continuous at interior knots, left limit at umax.      *)
(* NNDef is the textbook recursion verbatim.  NN is the same recursion cut  *)
(* off outside the support [U_i, U_i+j+1] (local support is a theorem about *)
(* NNDef, checked by MC_Oracle as FastEqualsDef); it only saves TLC time.   *)
RECURSIVE NNDef(_, _, _, _, _)
NNDef(U, ls, i, j, u) ==
  IF j = 0 THEN
     IF u = U[Len(U)] THEN (IF i = ls THEN One ELSE Zero)
     ELSE IF Le(K(U, i), u) /\ Lt(u, K(U, i + 1)) THEN One ELSE Zero
  ELSE LET a == IF K(U, i + j) # K(U, i)
                THEN Mul(Div(Sub(u, K(U, i)), Sub(K(U, i + j), K(U, i))), NNDef(U, ls, i, j - 1, u))
                ELSE Zero
           b == IF K(U, i + j + 1) # K(U, i + 1)
                THEN Mul(Div(Sub(K(U, i + j + 1), u), Sub(K(U, i + j + 1), K(U, i + 1))),
                         NNDef(U, ls, i + 1, j - 1, u))
                ELSE Zero
       IN Add(a, b)

RECURSIVE NN(_, _, _, _, _)
NN(U, ls, i, j, u) ==
  IF Lt(u, K(U, i)) \/ Lt(K(U, i + j + 1), u) THEN Zero
  ELSE IF j = 0 THEN
     IF u = U[Len(U)] THEN (IF i = ls THEN One ELSE Zero)
     ELSE IF Le(K(U, i), u) /\ Lt(u, K(U, i + 1)) THEN One ELSE Zero
  ELSE LET a == IF K(U, i + j) # K(U, i)
                THEN Mul(Div(Sub(u, K(U, i)), Sub(K(U, i + j), K(U, i))), NN(U, ls, i, j - 1, u))
                ELSE Zero
           b == IF K(U, i + j + 1) # K(U, i + 1)
                THEN Mul(Div(Sub(K(U, i + j + 1), u), Sub(K(U, i + j + 1), K(U, i + 1))),
                         NN(U, ls, i + 1, j - 1, u))
                ELSE Zero
       IN Add(a, b)

N(U, i, j, u) == NN(U, LastSpan(U), i, j, u)
NDef(U, i, j, u) == NNDef(U, LastSpan(U), i, j, u)
BasisRowDef(U, j, u) == LET ls == LastSpan(U) IN [i \in 1..(Len(U) - j - 1) |-> NNDef(U, ls, i - 1, j, u)]

(* left-continuous variant: value of the left limit at u (u > umin)         *)
RECURSIVE NL(_, _, _, _)
NL(U, i, j, u) ==
  IF j = 0 THEN IF Lt(K(U, i), u) /\ Le(u, K(U, i + 1)) THEN One ELSE Zero
  ELSE LET a == IF K(U, i + j) # K(U, i)
                THEN Mul(Div(Sub(u, K(U, i)), Sub(K(U, i + j), K(U, i))), NL(U, i, j - 1, u))
                ELSE Zero
           b == IF K(U, i + j + 1) # K(U, i + 1)
                THEN Mul(Div(Sub(K(U, i + j + 1), u), Sub(K(U, i + j + 1), K(U, i + 1))),
                         NL(U, i + 1, j - 1, u))
                ELSE Zero
       IN Add(a, b)

(* all basis functions of sub-degree j at u: sequence of length Len(U)-j-1 *)
BasisRow(U, j, u) == LET ls == LastSpan(U) IN [i \in 1..(Len(U) - j - 1) |-> NN(U, ls, i - 1, j, u)]

(* the table Function(U)[:, j](u): npts entries (indices beyond the natural *)
(* count of degree-j functions do not exist in the code: it reports npts    *)
(* rows, rows >= Len(U)-j-1 ... see MC_Basis for the exact shape)           *)

IsRational(c) == c.W # <<>>

Curve(U, P, W) == [U |-> U, P |-> P, W |-> W]
Poly(U, P)     == [U |-> U, P |-> P, W |-> <<>>]

ConsistentCurve(c) ==
  /\ IsKnotVector(c.U)
  /\ Len(c.P) = Npts(c.U)
  /\ Len(c.W) \in {0, Npts(c.U)}

(* rational basis R_{i,j}(u) = w_i N_ij / sum_k w_k N_kj                    *)
RationalRow(U, W, j, u) ==
  LET row == BasisRow(U, j, u)
      n   == Len(row)
      den == SumSeq([i \in 1..n |-> Mul(W[i], row[i])])
  IN [i \in 1..n |-> Div(Mul(W[i], row[i]), den)]

WeightAt(c, u) == Dot(BasisRow(c.U, Deg(c.U), u), c.W)

EvalDef(c, u) ==                                     \* the definition, verbatim
  LET row == BasisRowDef(c.U, Deg(c.U), u) IN
  IF c.W = <<>> THEN Dot(row, c.P)
  ELSE Div(Dot(row, [i \in 1..Len(c.P) |-> Mul(c.W[i], c.P[i])]), Dot(row, c.W))

(* same value, summing only the p+1 basis functions alive on the span of u  *)
Eval(c, u) ==
  LET U  == c.U
      p  == Deg(U)
      k  == Span(U, u)
      ls == LastSpan(U)
      b  == [m \in 0..p |-> NN(U, ls, k - p + m, p, u)]
  IN IF c.W = <<>> THEN SumSeq([m \in 1..(p + 1) |-> Mul(b[m - 1], c.P[k - p + m])])
     ELSE Div(SumSeq([m \in 1..(p + 1) |-> Mul(b[m - 1], Mul(c.W[k - p + m], c.P[k - p + m]))]),
              SumSeq([m \in 1..(p + 1) |-> Mul(b[m - 1], c.W[k - p + m])]))

LeftRow(U, u) == [i \in 1..Npts(U) |-> NL(U, i - 1, Deg(U), u)]
LeftLimit(c, u) ==                                   \* u > umin
  LET row == LeftRow(c.U, u) IN
  IF c.W = <<>> THEN Dot(row, c.P)
  ELSE Div(Dot(row, [i \in 1..Len(c.P) |-> Mul(c.W[i], c.P[i])]), Dot(row, c.W))

(* d+1 interior points of every non-empty span plus all knots: decides      *)
(* equality of two piecewise polynomials of degree <= d on these breaks     *)
InteriorPts(a, b, d) == {Add(a, Mul(Sub(b, a), Q(k, d + 2))) : k \in 1..(d + 1)}
SamplePts(ks, d) ==                                 \* ks: ascending distinct breaks
  {ks[i] : i \in 1..Len(ks)} \cup
  UNION {InteriorPts(ks[i], ks[i + 1], d) : i \in 1..(Len(ks) - 1)}

CommonBreaks(U, V) == SeqOfSet(KnotSet(U) \cup KnotSet(V))

(* complete function-equality test.  For polynomial curves of degree <= d   *)
(* on each span d+1 interior points decide; rational curves n1/w1 = n2/w2   *)
(* <=> n1 w2 = n2 w1, degree <= p+q, so 2d+1 >= p+q+1 interior points.      *)
FnDegree(c1, c2) ==
  LET p == Deg(c1.U) q == Deg(c2.U) IN
  IF c1.W = <<>> /\ c2.W = <<>> THEN (IF p > q THEN p ELSE q) ELSE p + q

(* three-valued: "yes" / "no" / "unknown".  A value that left TLC's 32 bits is NaR (module Rat); a pair   *)
(* of representable, different values decides "no"; otherwise any NaR makes the answer "unknown".          *)
Cmp3(pairs) ==                      \* pairs: set of <<x, y>>
  IF \E p \in pairs : ~IsNaR(p[1]) /\ ~IsNaR(p[2]) /\ p[1] # p[2] THEN "no"
  ELSE IF \E p \in pairs : IsNaR(p[1]) \/ IsNaR(p[2]) THEN "unknown"
  ELSE "yes"

SameFunction3(c1, c2) ==
  IF Limits(c1.U) # Limits(c2.U) THEN "no"
  ELSE LET ks == CommonBreaks(c1.U, c2.U)
           S  == SamplePts(ks, FnDegree(c1, c2))
       IN Cmp3({<<Eval(c1, u), Eval(c2, u)>> : u \in S}
               \cup {<<LeftLimit(c1, ks[i]), LeftLimit(c2, ks[i])>> : i \in 2..Len(ks)})

SameFunctionStrict(c1, c2) == SameFunction3(c1, c2) = "yes"
(* used by the specification's own sanity properties: tolerant of arithmetic that left the range *)
SameFunction(c1, c2) == SameFunction3(c1, c2) # "no"

(* c2 (on a sub-interval) equals c1 restricted to c2's interval             *)
RestrictsTo3(c1, c2) ==
  IF ~(Valid(c1.U, Umin(c2.U)) /\ Valid(c1.U, Umax(c2.U))) THEN "no"
  ELSE LET ks == SeqOfSet({x \in KnotSet(c1.U) \cup KnotSet(c2.U) : Valid(c2.U, x)})
           S  == SamplePts(ks, FnDegree(c1, c2))
       IN Cmp3({<<Eval(c2, u), Eval(c1, u)>> : u \in S \ {Umax(c2.U)}}
               \cup {<<LeftLimit(c2, ks[i]), LeftLimit(c1, ks[i])>> : i \in 2..Len(ks)})
RestrictsTo(c1, c2) == RestrictsTo3(c1, c2) # "no"
=============================================================================
