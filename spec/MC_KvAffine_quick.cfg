SPECIFICATION Spec
CONSTANTS
  ArgsOf <- MCArgs
  InitHeaps <- MCInit
  MaxDepth = 2
  Breaks <- BreaksQ
  Degs <- DegsQ
  MaxNpts = 5
  CtorLen = 2
  Rich = FALSE
  Acts = {"KvValueOp", "KvShift", "KvScale", "KvNormalize", "FnBasis"}
INVARIANT WellFormed
PROPERTY FailedIsNoOp
PROPERTY AffineProps
ACTION_CONSTRAINT Log
VIEW View
CHECK_DEADLOCK FALSE
