------------------------------ MODULE Universe ------------------------------
(* The bounded universe every MC_* instance draws from: clamped knot vectors *)
(* over a (deliberately non-uniform) break grid with every multiplicity      *)
(* pattern, linearity-basis / generic / smooth control points, weights,      *)
(* parameter grids and node multisets.                                       *)
EXTENDS Blossom

(* all clamped vectors of degree p on breaks bs (ascending, Len >= 2) with   *)
(* interior multiplicities 0..p+1 and at most maxn control points            *)
MultPatterns(p, n) == [1..n -> 0..(p + 1)]
KVsOn(bs, p, maxn) ==
  LET n == Len(bs) - 2 IN
  { FromMults(bs, [i \in 1..Len(bs) |-> IF i = 1 \/ i = Len(bs) THEN p + 1 ELSE ms[i - 1]])
      : ms \in {m \in MultPatterns(p, n) :
                   LET tot == SumSeq([i \in 1..n |-> R(m[i])])[1] IN p + 1 + tot <= maxn} }

KVs(bs, degs, maxn) == UNION {KVsOn(bs, p, maxn) : p \in degs}

Unit(n, k) == [i \in 1..n |-> IF i = k THEN One ELSE Zero]
Gen1(n)    == [i \in 1..n |-> R(i * i - 3 * i + 1)]           \* -1,-1,1,5,11,...
Gen2(n)    == [i \in 1..n |-> Q(((i * 7) % 5) - 2, 1 + (i % 2))]  \* mixed signs, halves
Const(n, x) == [i \in 1..n |-> x]
WGen1(n)   == [i \in 1..n |-> R(1 + ((i * 2) % 3))]           \* 3,2,1,3,2,1..: positive
WGen2(n)   == [i \in 1..n |-> Q(1 + (i % 2) * 2, 2)]          \* 3/2,1/2,...

(* parameter grid of U: knots, d+1 interior points per span *)
ParamGrid(U, d) == SamplePts(Knots(U), d)
Outside(U) == {Sub(Umin(U), One), Add(Umax(U), Half)}

(* sequences over S of length <= n (as sequences; order matters to the API)  *)
RECURSIVE SeqsUpTo(_, _)
SeqsUpTo(S, n) == IF n = 0 THEN {<<>>}
                  ELSE LET T == SeqsUpTo(S, n - 1) IN T \cup {<<x>> \o t : x \in S, t \in {y \in T : Len(y) = n - 1}}
(* multisets of size <= n as ascending sequences *)
MultisetsUpTo(S, n) == {s \in SeqsUpTo(S, n) : \A i \in 1..(Len(s) - 1) : Le(s[i], s[i + 1])}

Midpoints(U) == LET ks == Knots(U) IN {Mid(ks[i], ks[i + 1]) : i \in 1..(Len(ks) - 1)}
=============================================================================
