SPECIFICATION Spec
CONSTANTS
  ArgsOf <- MCArgs
  InitHeaps <- MCInit
  MaxDepth = 3
  Breaks <- BreaksQ
  Degs <- DegsQ
  MaxNpts = 4
  WtKinds = {"none", "gen"}
INVARIANT WellFormed
PROPERTY FailedIsNoOp
PROPERTY OthersUntouched
ACTION_CONSTRAINT Log
VIEW View
CHECK_DEADLOCK FALSE
