------------------------------- MODULE Rat -------------------------------
(* Exact rational arithmetic for TLC.  A rational is a normalised pair    *)
(* <<n, d>> with d > 0 and gcd(|n|, d) = 1, so equality of rationals is    *)
(* equality of TLA+ values.  Every operation cross-reduces before it      *)
(* multiplies, which keeps intermediates inside TLC's 32-bit integers on   *)
(* the small universes used here; if a product still overflows TLC aborts  *)
(* loudly (never wraps), which the harness reports as "unknown".          *)
EXTENDS Integers, Sequences, FiniteSets

Abs(x) == IF x < 0 THEN -x ELSE x

RECURSIVE GCD(_, _)
GCD(a, b) == IF b = 0 THEN a ELSE GCD(b, a % b)          \* a, b >= 0

Norm(n, d) ==                                            \* d # 0
  LET g == GCD(Abs(n), Abs(d))
      s == IF d < 0 THEN -1 ELSE 1
  IN  <<s * (n \div g), s * (d \div g)>>

IsRat(a) == /\ a \in Seq(Int) /\ Len(a) = 2 /\ a[2] > 0
            /\ GCD(Abs(a[1]), a[2]) = 1

R(n)  == <<n, 1>>
Zero  == <<0, 1>>
One   == <<1, 1>>
Two   == <<2, 1>>
Half  == <<1, 2>>
NaR   == <<0, 0>>             \* "not a rational": a value outside TLC's range; propagates
IsNaR(a) == a[2] = 0

(* ---- reference definitions (pure TLA+) ----------------------------------- *)
NegDef(a) == IF IsNaR(a) THEN NaR ELSE <<-a[1], a[2]>>
AddDef(a, b) ==
  IF IsNaR(a) \/ IsNaR(b) THEN NaR
  ELSE IF a[2] = b[2] THEN Norm(a[1] + b[1], a[2])
  ELSE LET g  == GCD(a[2], b[2])
           da == a[2] \div g
           db == b[2] \div g
       IN  Norm(a[1] * db + b[1] * da, da * b[2])
SubDef(a, b) == AddDef(a, NegDef(b))
MulDef(a, b) ==
  IF IsNaR(a) \/ IsNaR(b) THEN NaR
  ELSE IF a[1] = 0 \/ b[1] = 0 THEN Zero
  ELSE LET g1 == GCD(Abs(a[1]), b[2])
           g2 == GCD(Abs(b[1]), a[2])
       IN  <<(a[1] \div g1) * (b[1] \div g2), (a[2] \div g2) * (b[2] \div g1)>>
InvDef(a) == IF IsNaR(a) \/ a[1] = 0 THEN NaR ELSE IF a[1] < 0 THEN <<-a[2], -a[1]>> ELSE <<a[2], a[1]>>
DivDef(a, b) == MulDef(a, InvDef(b))
LtDef(a, b) == ~IsNaR(a) /\ ~IsNaR(b) /\ a[1] * b[2] < b[1] * a[2]
LeDef(a, b) == ~IsNaR(a) /\ ~IsNaR(b) /\ a[1] * b[2] <= b[1] * a[2]

(* ---- the operators the specification uses --------------------------------- *)
(* They are overridden by Rat.class (spec/Rat.java): the same functions in 64-bit *)
(* arithmetic, returning NaR (and raising a per-thread flag) instead of aborting   *)
(* when the normal form of a result leaves 32 bits.  MC_Oracle checks             *)
(* JavaAgreesWithDef on a grid.  Without the class file the definitions below are  *)
(* used and TLC aborts on overflow.                                               *)
Neg(a) == NegDef(a)
Add(a, b) == AddDef(a, b)
Sub(a, b) == SubDef(a, b)
Mul(a, b) == MulDef(a, b)
Inv(a) == InvDef(a)
Div(a, b) == DivDef(a, b)
Lt(a, b) == LtDef(a, b)
Le(a, b) == LeDef(a, b)
OvfReset(x) == TRUE            \* Java: clears the overflow flag of this worker thread
OvfSeen(x)  == FALSE           \* Java: was NaR produced / compared since the last reset?

Q(n, d) == Norm(n, d)
(* equality that is tolerant of values that left the range: used only by the specification's own sanity  *)
(* properties, never to produce an expectation for the implementation                                     *)
EqT(x, y) == IsNaR(x) \/ IsNaR(y) \/ x = y
Gt(a, b) == Lt(b, a)
Ge(a, b) == Le(b, a)
IsZero(a) == a[1] = 0
Sign(a) == IF a[1] > 0 THEN 1 ELSE IF a[1] < 0 THEN -1 ELSE 0
RAbs(a) == <<Abs(a[1]), a[2]>>
RMax(a, b) == IF Lt(a, b) THEN b ELSE a
RMin(a, b) == IF Lt(a, b) THEN a ELSE b
Mid(a, b) == Mul(Add(a, b), Half)

(* Sum / product of a function (or sequence) of rationals over its domain *)
RECURSIVE SumOver(_, _)
SumOver(f, S) ==
  IF S = {} THEN Zero
  ELSE LET x == CHOOSE y \in S : TRUE IN Add(f[x], SumOver(f, S \ {x}))
RSum(f) == SumOver(f, DOMAIN f)

RECURSIVE SumSeqFrom(_, _)
SumSeqFrom(s, i) == IF i > Len(s) THEN Zero ELSE Add(s[i], SumSeqFrom(s, i + 1))
SumSeq(s) == SumSeqFrom(s, 1)

RECURSIVE RPow(_, _)
RPow(a, k) == IF k = 0 THEN One ELSE Mul(a, RPow(a, k - 1))

Dot(s, t) == SumSeq([i \in 1..Len(s) |-> Mul(s[i], t[i])])
=============================================================================
