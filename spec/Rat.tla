------------------------------- MODULE Rat -------------------------------
(* Exact rational arithmetic for TLC.  A rational is a normalised pair    *)
(* <<n, d>> with d > 0 and gcd(|n|, d) = 1, so equality of rationals is    *)
(* equality of TLA+ values.  Every operation cross-reduces before it      *)
(* multiplies, which keeps intermediates inside TLC's 32-bit integers on   *)
(* the small universes used here; if a product still overflows TLC aborts  *)
(* loudly (never wraps), which the harness reports as "unknown".          *)
EXTENDS Integers, Sequences, FiniteSets

Abs(x) == IF x < 0 THEN -x ELSE x

RECURSIVE GCD(_, _)
GCD(a, b) == IF b = 0 THEN a ELSE GCD(b, a % b)          \* a, b >= 0

Norm(n, d) ==                                            \* d # 0
  LET g == GCD(Abs(n), Abs(d))
      s == IF d < 0 THEN -1 ELSE 1
  IN  <<s * (n \div g), s * (d \div g)>>

IsRat(a) == /\ a \in Seq(Int) /\ Len(a) = 2 /\ a[2] > 0
            /\ GCD(Abs(a[1]), a[2]) = 1

R(n)  == <<n, 1>>
Q(n, d) == Norm(n, d)
Zero  == <<0, 1>>
One   == <<1, 1>>
Two   == <<2, 1>>
Half  == <<1, 2>>

Neg(a) == <<-a[1], a[2]>>

Add(a, b) ==
  IF a[2] = b[2] THEN Norm(a[1] + b[1], a[2])
  ELSE LET g  == GCD(a[2], b[2])
           da == a[2] \div g
           db == b[2] \div g
       IN  Norm(a[1] * db + b[1] * da, da * b[2])

Sub(a, b) == Add(a, Neg(b))

Mul(a, b) ==
  IF a[1] = 0 \/ b[1] = 0 THEN Zero
  ELSE LET g1 == GCD(Abs(a[1]), b[2])
           g2 == GCD(Abs(b[1]), a[2])
       IN  <<(a[1] \div g1) * (b[1] \div g2), (a[2] \div g2) * (b[2] \div g1)>>

Inv(a) == IF a[1] < 0 THEN <<-a[2], -a[1]>> ELSE <<a[2], a[1]>>   \* a # 0
Div(a, b) == Mul(a, Inv(b))

Lt(a, b) == a[1] * b[2] < b[1] * a[2]
Le(a, b) == a[1] * b[2] <= b[1] * a[2]
Gt(a, b) == Lt(b, a)
Ge(a, b) == Le(b, a)
IsZero(a) == a[1] = 0
Sign(a) == IF a[1] > 0 THEN 1 ELSE IF a[1] < 0 THEN -1 ELSE 0
RAbs(a) == <<Abs(a[1]), a[2]>>
RMax(a, b) == IF Lt(a, b) THEN b ELSE a
RMin(a, b) == IF Lt(a, b) THEN a ELSE b
Mid(a, b) == Mul(Add(a, b), Half)

(* Sum / product of a function (or sequence) of rationals over its domain *)
RECURSIVE SumOver(_, _)
SumOver(f, S) ==
  IF S = {} THEN Zero
  ELSE LET x == CHOOSE y \in S : TRUE IN Add(f[x], SumOver(f, S \ {x}))
RSum(f) == SumOver(f, DOMAIN f)

RECURSIVE SumSeqFrom(_, _)
SumSeqFrom(s, i) == IF i > Len(s) THEN Zero ELSE Add(s[i], SumSeqFrom(s, i + 1))
SumSeq(s) == SumSeqFrom(s, 1)

RECURSIVE RPow(_, _)
RPow(a, k) == IF k = 0 THEN One ELSE Mul(a, RPow(a, k - 1))

Dot(s, t) == SumSeq([i \in 1..Len(s) |-> Mul(s[i], t[i])])
=============================================================================
