SPECIFICATION Spec
CONSTANTS
  ArgsOf <- MCArgs
  InitHeaps <- MCInit
  MaxDepth = 3
  Breaks <- BreaksT
  Degs <- DegsT
  MaxNpts = 6
  CtorLen = 7
  Rich = FALSE
  Acts = {}
INVARIANT WellFormed
PROPERTY FailedIsNoOp
PROPERTY UnionProps

ACTION_CONSTRAINT Log
VIEW View
CHECK_DEADLOCK FALSE
