SPECIFICATION Spec
CONSTANTS
  ArgsOf <- MCArgs
  InitHeaps <- MCInit2
  MaxDepth = 1
  Breaks <- BreaksT
  Degs <- DegsT
  MaxNpts = 7
  Acts = {"CvEval"}
  PtKinds = {"gen", "unit"}
  WtKinds = {"none", "const", "gen", "gen2"}
  ExtraNodes <- Extra0
  NodeSize = 2
  Scenario = "single"
  PrepDepth = 0
  OtherDegs <- DegsQ
  OtherMaxNpts = 4
INVARIANT WellFormed
PROPERTY FailedIsNoOp

ACTION_CONSTRAINT Log
VIEW View
CHECK_DEADLOCK FALSE
