SPECIFICATION Spec
CONSTANTS
  ArgsOf <- MCArgs
  InitHeaps <- MCInit2
  MaxDepth = 1
  Breaks <- BreaksQ
  Degs <- Degs4
  MaxNpts = 8
  Acts = {"CvIntegrate", "IntegrateFn"}
  PtKinds = {"gen", "unit"}
  WtKinds = {"none"}
  ExtraNodes <- Extra0
  NodeSize = 2
  Scenario = "single"
  PrepDepth = 0
  OtherDegs <- DegsQ
  OtherMaxNpts = 4
INVARIANT WellFormed
PROPERTY FailedIsNoOp
PROPERTY IntegralAgrees
ACTION_CONSTRAINT Log
VIEW View
CHECK_DEADLOCK FALSE
