SPECIFICATION Spec
CONSTANTS
  ArgsOf <- MCArgs
  InitHeaps <- MCInit2
  MaxDepth = 1
  Breaks <- BreaksQ
  Degs <- Degs3
  MaxNpts = 5
  Acts = {"CvFitCurve"}
  PtKinds = {"pos"}
  WtKinds = {"none"}
  ExtraNodes <- Extra0
  NodeSize = 2
  Scenario = "single"
  PrepDepth = 0
  OtherDegs <- Degs0
  OtherMaxNpts = 3
INVARIANT WellFormed
PROPERTY FailedIsNoOp

ACTION_CONSTRAINT Log
VIEW View
CHECK_DEADLOCK FALSE
