#!/bin/sh
# Demonstrations that the bindings are real (DESIGN 3.4).  Uses scratch worktrees, never touches /repo.
export VERIF_EVIDENCE_DIR=/tmp/vt/evidence_scratch; mkdir -p $VERIF_EVIDENCE_DIR   # never overwrite /verif/evidence from a scratch tree
cd /verif
echo "== 1. a recorded suite event with one corrupted field is rejected by TraceSuite.tla"
/venv/bin/python - <<'PY'
import json, sys
sys.path.insert(0, "/verif")
from harness.trace import Validator
good = {"kind": "kv", "name": "insert", "op": "insert", "pre": [0, 0, 2, 2], "post": [0, 0, 1, 2, 2], "arg": [1],
        "argok": True, "scalar": False, "cls": "ok", "amb": False, "ret": [], "pieces": []}
bad = dict(good, post=[0, 0, 2, 2, 2])           # the inserted knot landed in the wrong place
lost = dict(good, post=[0, 0, 2, 2])             # "ok" but nothing inserted
v = Validator("TraceSuite.tla", "TraceSuite.cfg")
for e in (good, bad, lost):
    v.add_raw(e)
verdicts, unknown, _ = v.run()
print("  verdicts:", verdicts)
assert verdicts[1] == [] and verdicts[2] and verdicts[3], "binding B does not reject corrupted events"
print("  ok: intact event accepted, corrupted events rejected with", verdicts[2], verdicts[3])
PY
echo "== 2. a listed known finding is reported as KNOWN-FINDING (exit 0), an unlisted violation still fails"
wt=/tmp/wt/selftest; rm -rf $wt; git -C /repo worktree add -q $wt HEAD && (cd $wt && git apply /verif/seeded/C03_b/patch.diff)
cat > /tmp/wt/selftest_kf.json <<'J'
{"findings": [{"property": "C03", "key": "KvSetDegree:state", "what": "degree setter lowers the degree level by level (self-test entry)", "status": "open"}], "fixed": []}
J
VERIF_REPO=$wt VERIF_KNOWN_FINDINGS=/tmp/wt/selftest_kf.json ./check C03 2>&1 | grep -E "^KNOWN-FINDING|^VIOLATION" | head -3; true
VERIF_REPO=$wt ./check C03 > /tmp/wt/selftest.log 2>&1; echo "  exit without the listing: $? ($(grep -c '^VIOLATION' /tmp/wt/selftest.log) VIOLATION lines)"
git -C /repo worktree remove --force $wt; rm -f /tmp/wt/selftest_kf.json /tmp/wt/selftest.log
echo "== 3. the open finding of C05 is matched by INPUT: the same clause failing on another input is still a VIOLATION"
wt=/tmp/wt/selftest; rm -rf $wt; git -C /repo worktree add -q $wt HEAD
# tolerance=None treated like the default tolerance: every lossy removal with None is now refused
(cd $wt && sed -i 's/        self.update(newknotvec, tolerance, knots)/        self.update(newknotvec, 1e-9 if tolerance is None else tolerance, knots)/' src/compmec/nurbs/curves.py && git diff --stat | tail -1)
VERIF_REPO=$wt ./check C05 > /tmp/wt/selftest.log 2>&1; rc=$?
echo "  exit $rc; KNOWN-FINDING lines: $(grep -c '^KNOWN-FINDING' /tmp/wt/selftest.log); VIOLATION lines: $(grep -c '^VIOLATION' /tmp/wt/selftest.log)"
grep -E "^  \[" /tmp/wt/selftest.log | head -3
git -C /repo worktree remove --force $wt; rm -f /tmp/wt/selftest.log
