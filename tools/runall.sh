#!/bin/sh
# run every registered quick (or $1) check, print exit code and wall time
tier=${1:-quick}
cd /verif
for p in $(python3 -c "import json;print(' '.join(c['property_id'] for c in json.load(open('MANIFEST.json'))['checks']))"); do
  s=$(date +%s)
  ./check $p --tier $tier > /tmp/vt/run_$p.log 2>&1
  rc=$?
  e=$(date +%s)
  echo "$p rc=$rc $((e-s))s $(grep -c '^VIOLATION' /tmp/vt/run_$p.log) violations $(grep -c '^KNOWN' /tmp/vt/run_$p.log) known"
done
