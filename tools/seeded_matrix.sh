#!/bin/sh
# run, for every seeded change, the quick check of the property it breaks (in a scratch worktree, via VERIF_REPO);
# prints one line per change: expected rc=1
export VERIF_EVIDENCE_DIR=/tmp/vt/evidence_scratch; mkdir -p $VERIF_EVIDENCE_DIR   # never overwrite /verif/evidence from a scratch tree
cd /verif
for d in seeded/*/; do
  name=$(basename $d)
  prop=${name%%_*}
  wt=/tmp/wt/m_$name
  rm -rf $wt; git -C /repo worktree add -q $wt HEAD || continue
  if (cd $wt && git apply /verif/$d/patch.diff); then
    VERIF_REPO=$wt ./check $prop --tier ${TIER:-quick} > /tmp/vt/matrix_$name.log 2>&1; rc=$?
    echo "$name $prop rc=$rc $(grep -E '^  \[' /tmp/vt/matrix_$name.log | head -2 | sed 's/^ *//' | tr '\n' ';')"
  else
    echo "$name patch does not apply"
  fi
  git -C /repo worktree remove --force $wt
done
git -C /repo worktree prune
