#!/usr/bin/env python3
"""(re)write /verif/MANIFEST.json from the table below"""
import json, os
ROOT = os.path.dirname(os.path.dirname(os.path.abspath(__file__)))
COMMON_NOTE = ("Trusted: TLC 1.8; the transcription of Cox-de Boor / blossoming / the operation semantics in spec/*.tla "
               "(cross-checked by the MC_Oracle theorems and by the action properties TLC checks on every instance); "
               "spec/Rat.class (64-bit override of the rational arithmetic, checked against the pure TLA+ definitions by "
               "JavaAgreesWithDef); the Python replay / trace harness. Bounded universe as stated in the cfg files; "
               "arithmetic that leaves 32 bits makes a case 'unknown' (counted in the evidence), never a verdict.")
T = {
 "C01": ("MC_Curve_eval: every (curve, parameter) of the universe incl. all knots, both ends, p+2 interior points per span, "
         "span midpoints, outside nodes, scalar / tuple / list arguments; invariant: value = sum R_i(u) P_i by the textbook recursion",
         "TLA+ reference semantics (Spline.tla Eval) + TLC enumeration; spec->code replay of every transition, exact in Fraction mode; 2-D points by paired transitions"),
 "C02": ("MC_Curve_basis: every knot vector, sub-degree j, parameter; all indexing forms f[i,j], f[i], f[:,j], negative indices, slices, sequences",
         "TLC enumeration of the Cox-de Boor table (NNDef/NN, local support and partition of unity as theorems); replay of every row"),
 "C03": ("KnotVector history machine (MC_KnotVector): constructor sweep over all sequences up to length 6-7 over {0,1,2,non-number}, all "
         "insert/remove/+=/-=/shift/scale/normalize/degree/|=/&=/split/copy/convert sequences of depth 2-3 with valid and invalid arguments; "
         "invariants WellFormed, FailedIsNoOp; all queries after every step; plus TLC-judged traces of the repository's own tests and of seeded random histories",
         "explicit-state model checking of the KnotVector state machine + replay on live objects along the paths of TLC's graph + trace validation (TraceSuite.tla) of recorded executions"),
 "C04": ("MC_Curve_insert: all node multisets of size <= 2 (and unsorted triples) over knots, midpoints, 0, 1, ends, outside; polynomial and rational; "
         "action property InsertPreserves (complete function equality) and exact post-state comparison; refusal => ValueError and unchanged",
         "TLC action property over the Refine (blossom) semantics; replay with whole-state comparison"),
 "C05": ("insert-then-remove histories and direct removals (MC_Curve_remove): removable / non-removable knots, tolerance default / None / explicit; "
         "clauses exact_case_must_succeed, exact_case_same_function, deviation_within_tolerance (rigorous lower bound), keeps_values_at_remaining_knots, unchanged_on_failure",
         "TLC classification by Coarsen/Representable; observed results judged by Trace.tla with the clauses of Sem.tla"),
 "C06": ("elevation (exact post-state, ElevatePreserves) and elevate-then-reduce histories (MC_Curve_decrease) with the same clause set as C05",
         "TLC action properties + replay; relational results judged by Trace.tla"),
 "C07": ("MC_Curve_split (all cut sequences of length <= 2 incl. ends, repeats, unsorted; split()) with SplitRestricts, aliasing of the pieces; "
         "split-then-join histories and joins of independent adjacent curves (continuous or not) with JoinRestores",
         "TLC action properties over Refine / JoinResult; replay with exact comparison; rational joins judged by Trace.tla"),
 "C08": ("all ordered pairs of curves of the universe x {+,-,*,/} and all scalar forms; A@B, M@A, A@M and scalar forms on 2-D curves; "
         "clause pointwise on a sample set that decides equality of the rational functions involved; operands unchanged; different intervals => ValueError",
         "scenario enumeration by TLC; observed result values judged pointwise by Trace.tla"),
 "C09": ("MC_Curve_deriv: every curve incl. C0 knots, discontinuities, rational, constant weights; table of exact derivative values "
         "(Lagrange derivative of the span polynomial; quotient rule), cross-checked in TLC against the control-point formula",
         "TLC-computed exact derivative table; replay compares Derivate(C)(u) to 1e-9"),
 "C10": ("memo machine (all call orders of the eight rule functions up to depth 2-3 on import-time tables, key sets compared with the model); "
         "rules returned by the code judged by TLC (moment equations) for the rational families; spline integrals for all methods; Integrate.function on monomials; polyline length",
         "explicit-state model of the memo tables + replay per history; rule exactness judged by Trace.tla; irrational families numerically (stated limitation)"),
 "C11": ("MC_Curve_fitcurve: all (target space, source curve) pairs of different degrees and non-nested knots, node sets none / ends / knots; "
         "clauses residual_orthogonal, in_space_reproduced, err_is_multiple_of_L2, interpolates_nodes; 2-D sources (worst coordinate)",
         "exact L2 inner products by Newton-Cotes constants verified by TLC (ASSUME); observed fits judged by Trace.tla"),
 "C12": ("MC_Curve_fitpoints: over-determined grids, square systems with permuted nodes, default nodes, in-space samples, too few points; "
         "clauses normal_equations, interpolates_when_square; fit_function reproduces in-space curves exactly",
         "observed control points judged by Trace.tla against the collocation matrix of the spec's basis"),
 "C13": ("MC_Curve_eq: refined / elevated / perturbed copies, polynomial vs rational forms, equal tuples on other knot vectors, flat curves, "
         "other intervals, non-curves; both operand orders; !=",
         "TLC computes SameFunction3 (complete test, three-valued); replay compares ==, !=, symmetry"),
 "C14": ("refine-then-clean histories (insert / elevate then every clean call, depth 3-4) with CleanProps (function preserved, Minimal is a fixpoint), exact minimal form for "
         "polynomial curves, same_function for rational; seeded random function-preserving histories judged by TLC",
         "TLC action property over Minimal (greedy exact coarsening) + replay; SameFunction events judged by Trace.tla"),
 "C15": ("Curve machine (MC_Machine): heap of a curve, a sibling built from the same KnotVector object and that object; every public operation with valid and invalid "
         "arguments, depth 2-3; invariants WellFormed, FailedIsNoOp, OthersUntouched; plus TLC-judged traces of every Curve call the repository's tests make",
         "explicit-state model checking of the Curve state machine + replay on live objects + trace validation (TraceSuite.tla)"),
 "C16": ("the TLC-generated scenarios of C01, C02, C04, C06, C07, C10 replayed with float, numpy.float64 and int data against the exact spec state; "
         "lossy operations executed with Fraction and float data and compared; exactness (no float) asserted in every Fraction-mode check",
         "number-representation refinement of the same specification behaviours (Binding C)"),
 "C17": ("all ordered pairs of knot vectors of the universe for |, &, |=, &=; action properties UnionIsCoarsest (refines both, dropping any knot copy breaks it, "
         "commutative, idempotent) and InterProps",
         "TLC action properties over UnionKV / InterKV; replay of every pair"),
 "C18": ("all (kind, degree, npts, class) generator calls; GenProps; shift/scale/normalize machine with AffineProps and basis evaluation on the mapped vector "
         "(ReparamInvariant is an MC_Oracle theorem); random() with the captured draws as existential witness judged by TLC; float normalize limits",
         "TLC action properties + replay in Fraction / float / int classes; witness-based trace validation for random()"),
 "C19": ("polylines (1-4 segments) x query points on a half-integer grid, near-vertex points on the curve, reducible (elevated) representations; "
         "exact nearest-parameter sets from Geometry.tla; non-empty, sorted, inside, equidistant, minimal, complete, curve unchanged, terminates under an alarm",
         "TLC-computed exact answers for the guaranteed (polyline) class; replay compares to 1e-6"),
 "C20": ("all ordered pairs of segments between the points of a 4x3 grid (17,000 pairs), zig-zags and polylines; exact crossing parameters from Geometry.tla; "
         "pairs inside, curves meet there, no duplicates, every crossing found, nothing for non-meeting curves; touching / collinear pairs: soundness only",
         "TLC-computed exact crossings for the guaranteed class; replay compares to 1e-6"),
}
def chk(pid):
    text, tech = T[pid]
    return {"property_id": pid, "quick_cmd": f"./check {pid} --tier quick", "thorough_cmd": f"./check {pid} --tier thorough",
            "evidence_file": f"/verif/evidence/{pid}.json", "replay_cmd_template": f"./check {pid} --replay {{path}}", "engine": "tlc",
            "level_claimed": {"category": "model_checking",
                              "text": "TLC explores the bounded instance exhaustively with the property as invariant / action property of spec/Nurbs.tla; "
                                      "every explored transition is one conformance test of the implementation. Instance: " + text,
                              "design_ref": "DESIGN.md sections 5 and 11"},
            "level_note": COMMON_NOTE, "technique": "TLA+ specification model-checked by TLC + conformance: " + tech}
m = {"version": 1,
     "setup_cmd": "cd /verif/spec && javac -cp /opt/veriftools/tla/tla2tools.jar Rat.java",
     "hooks": {"guard": "COMPMEC_NURBS_VERIF",
               "enable": "no source hooks in /repo: the abstract state is public and the checks import /repo/src of the working tree directly; "
                         "COMPMEC_NURBS_VERIF=1 enables the external recorder plugin (harness/recorder.py, -p harness.recorder) when the repository's "
                         "suite is run under it; with the guard unset nothing is wrapped",
               "baseline_off_cmd": "cd /repo && env -u COMPMEC_NURBS_VERIF /venv/bin/python -m pytest -q -p no:cacheprovider --timeout=900",
               "source_commits": [], "add_only": True},
     "engines": [{"name": "tlc", "path": "/opt/veriftools/tla/tla2tools.jar", "serves_properties": sorted(T),
                  "kind_free_text": "TLC 1.8 explicit-state model checker over spec/*.tla (state machine Nurbs.tla, instances MC_*.tla, "
                                    "trace specifications Trace.tla / TraceSuite.tla); Java module override spec/Rat.class for the rational arithmetic"}],
     "checks": [chk(p) for p in sorted(T)],
     "notes": "All 20 properties are decided with the TLA+ specification; what TLC cannot represent (floating-point rounding, irrational quadrature "
              "nodes, curved projection / intersection) is stated per property in DESIGN.md 11.4 and in the evidence assumptions. "
              "known_findings.json lists the repaired defects (fixed:) and two open findings (C05: a vanishing projected weight makes "
              "knot_remove(tolerance=None) refuse one rational input; C08: A / B with rational A and the zero-free divisor (1, -1/2, 1) hits a "
              "vanishing Bernstein coefficient; both matched by clause AND input). seeded/ holds the independently written "
              "breaking changes of eight rounds, all detected by the quick checks (tools/seeded_matrix.sh); C11 for genuine degrees >= 5 is "
              "decided only through the Fraction-vs-float relation (DESIGN.md 11.5, seventh round).",
     "not_applicable": []}
json.dump(m, open(os.path.join(ROOT, "MANIFEST.json"), "w"), indent=1)
print("MANIFEST.json written,", len(m["checks"]), "checks")
