#!/usr/bin/env python3
"""summarise a VERIF_DUMP file: failure classes with one example each"""
import collections, json, re, sys
c = collections.Counter(); ex = {}
for l in open(sys.argv[1]):
    d = json.loads(l); det = d["detail"]
    t = det.get("transition") or det.get("event")
    msg = det["failures"][0] if "failures" in det else str(det.get("clauses"))
    m = re.sub(r"[-\d]+", "#", msg)[:100]
    k = (d["key"], m)
    c[k] += 1
    if k not in ex:
        ex[k] = (t["act"], t.get("pre", t.get("c")), det.get("failures", det.get("clauses")))
for k, n in c.most_common():
    a, pre, fails = ex[k]
    print(n, k[0], "|", k[1])
    print("     act:", json.dumps(a)[:300])
    print("     pre:", json.dumps(pre)[:400])
    for f in fails[:3]:
        print("     fail:", str(f)[:400])
