#!/bin/sh
# tools/try_mutant.sh <patch.diff> <check-id>...   : apply patch to /repo, run quick checks, undo
export VERIF_EVIDENCE_DIR=/tmp/vt/evidence_scratch; mkdir -p $VERIF_EVIDENCE_DIR   # never overwrite /verif/evidence from a scratch tree
patch=$1; shift
cd /repo || exit 2
if [ -n "$(git status --porcelain -- src)" ]; then echo "/repo not clean"; exit 2; fi
git apply "$patch" || { echo "patch does not apply"; exit 2; }
for p in "$@"; do
  s=$(date +%s)
  (cd /verif && ./check $p --tier ${TIER:-quick} > /tmp/vt/mut_$p.log 2>&1); rc=$?
  e=$(date +%s)
  echo "$p rc=$rc $((e-s))s :: $(grep -E '^  \[' /tmp/vt/mut_$p.log | head -4 | tr '\n' ';')"
done
git checkout -- . 
git status --porcelain -- src | head -2
