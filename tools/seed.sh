#!/bin/sh
# tools/seed.sh <name> <worktree> <check-id>... : confirm a seeded change in its scratch worktree
# (demo fails with it / passes without it, suite unchanged), store it under /verif/seeded/<name>,
# run the given quick checks against it on /repo, record everything in meta.json
export VERIF_EVIDENCE_DIR=/tmp/vt/evidence_scratch; mkdir -p $VERIF_EVIDENCE_DIR   # never overwrite /verif/evidence from a scratch tree
name=$1; wt=$2; shift 2
[ -f $wt/patch.diff ] || { echo "no patch"; exit 2; }
cd $wt || exit 2
git checkout -q -- src; git apply patch.diff || { echo "patch does not apply in worktree"; exit 2; }
PYTHONPATH=$wt/src /venv/bin/python demo.py > /tmp/vt/seed_demo_mut.log 2>&1; rc_mut=$?
suite=$(PYTHONPATH=$wt/src /venv/bin/python -m pytest -q -p no:cacheprovider --timeout=900 2>&1 | tail -1)
git apply -R patch.diff
PYTHONPATH=$wt/src /venv/bin/python demo.py > /tmp/vt/seed_demo_orig.log 2>&1; rc_orig=$?
suite0=$(PYTHONPATH=$wt/src /venv/bin/python -m pytest -q -p no:cacheprovider --timeout=900 2>&1 | tail -1)
git apply patch.diff
echo "demo original rc=$rc_orig mutated rc=$rc_mut ; suite with change: $suite ; without: $suite0"
# same counts with and without the change (the pinned baseline had one always-failing test; a later fix: made it pass)
c1=$(echo "$suite" | sed 's/ in [0-9.]*s.*//; s/, [0-9]* warnings*//'); c0=$(echo "$suite0" | sed 's/ in [0-9.]*s.*//; s/, [0-9]* warnings*//')
if [ "$c1" = "$c0" ]; then ok_suite=1; else ok_suite=0; fi
if [ $rc_orig -ne 0 ] || [ $rc_mut -eq 0 ] || [ $ok_suite -ne 1 ]; then echo "NOT CONFIRMED"; exit 1; fi
mkdir -p /verif/seeded/$name
cp patch.diff demo.py /verif/seeded/$name/
[ -f meta.txt ] && cp meta.txt /verif/seeded/$name/meta.txt
res=""
# the checks import the library from $VERIF_REPO/src: point them at the scratch worktree (patch applied there)
for p in "$@"; do
  (cd /verif && VERIF_REPO=$wt ./check $p --tier quick > /tmp/vt/seed_${name}_$p.log 2>&1); rc=$?
  keys=$(grep -E '^  \[' /tmp/vt/seed_${name}_$p.log | head -3 | sed 's/^ *//' | tr '\n' ';' | tr '"' "'")
  echo "  $p rc=$rc $keys"
  res="$res{\"check\": \"$p\", \"exit\": $rc, \"keys\": \"$keys\"},"
done
cd /verif
python3 - "$name" "$suite" "$rc_orig" "$rc_mut" "[${res%,}]" <<'PY'
import json, sys, os
name, suite, ro, rm, res = sys.argv[1:6]
d = "/verif/seeded/" + name
meta = {"name": name, "breaks_property": name.split("_")[0],
        "needs_to_manifest": open(d + "/meta.txt").read() if os.path.exists(d + "/meta.txt") else "",
        "confirmed": {"suite_with_change": suite, "demo_exit_original": int(ro), "demo_exit_mutated": int(rm),
                      "how": "scratch worktree, PYTHONPATH=<wt>/src /venv/bin/python demo.py and pytest -q"},
        "checks_run": json.loads(res), "origin": "independent sub-agent given only the property text"}
json.dump(meta, open(d + "/meta.json", "w"), indent=1)
PY
