#!/bin/sh
# run the repository's own suite with the verification guard off; prints pass/fail counts
cd /repo && env -u COMPMEC_NURBS_VERIF /venv/bin/python -m pytest -q -p no:cacheprovider --timeout=900 2>&1 | grep -E "^[0-9]+ (passed|failed)|passed|FAILED" | tail -5
