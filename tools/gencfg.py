#!/usr/bin/env python3
"""Generate the MC_Curve_*.cfg instances (static files, committed).  One row per instance."""
import os
SPEC = os.path.join(os.path.dirname(os.path.dirname(os.path.abspath(__file__))), "spec")

BASE = dict(breaks="BreaksQ", degs="DegsQ", maxnpts=5, pts='"gen"', wts='"none", "gen", "const"', nodesize=2,
            scenario="single", prep=0, depth=1, odegs="DegsQ", omax=4, props=[], extra="Extra0")

def S(*a):
    return ", ".join(f'"{x}"' for x in a)

ROWS = {
 # name: overrides
 "eval_quick": dict(acts=S("CvEval"), wts='"none", "const", "gen", "gen2"'),
 "eval_thorough": dict(acts=S("CvEval"), wts='"none", "const", "gen", "gen2"', pts='"gen", "unit"', degs="DegsT", maxnpts=7, breaks="BreaksT"),
 "eval2_thorough": dict(acts=S("CvEval"), wts='"none", "gen"', pts='"gen"', degs="Degs4", maxnpts=8),
 "basis_quick": dict(acts=S("FnBasis")),
 "wide_eval_quick": dict(acts=S("CvEval"), breaks="BreaksW", degs="DegsW", maxnpts=11, wts='"none", "gen"'),
 "wide_basis_quick": dict(acts=S("FnBasis"), breaks="BreaksW", degs="DegsW", maxnpts=11, wts='"none", "gen"'),
 "wide_insert_quick": dict(acts=S("CvKnotInsert"), breaks="BreaksW", degs="DegsW", maxnpts=11, wts='"none", "gen"', nodesize=1, props=["InsertPreserves"]),
 "wide_elevate_quick": dict(acts=S("CvDegreeIncrease"), breaks="BreaksW", degs="DegsW", maxnpts=11, wts='"none", "gen"', props=["ElevatePreserves"]),
 "wide_split_quick": dict(acts=S("CvSplit"), breaks="BreaksW", degs="DegsW", maxnpts=11, wts='"none"', nodesize=1, props=["SplitRestricts"]),
 "wide_calc_quick": dict(acts=S("CvDerivate", "CvIntegrate"), breaks="BreaksW", degs="DegsW", maxnpts=11, wts='"none"'),
 "basis_thorough": dict(acts=S("FnBasis"), wts='"none", "gen", "gen2"', degs="Degs4", maxnpts=8, breaks="BreaksT"),
 "insert_quick": dict(acts=S("CvKnotInsert"), props=["InsertPreserves"]),
 "insert_thorough": dict(acts=S("CvKnotInsert"), props=["InsertPreserves"], pts='"gen", "unit"', wts='"none", "gen", "gen2"', degs="DegsT", maxnpts=6),
 "insert2_thorough": dict(acts=S("CvKnotInsert"), props=["InsertPreserves"], breaks="BreaksT", degs="DegsT", maxnpts=6, nodesize=3),
 "elevate_quick": dict(acts=S("CvDegreeIncrease"), props=["ElevatePreserves"]),
 "elevate_thorough": dict(acts=S("CvDegreeIncrease"), props=["ElevatePreserves"], pts='"gen", "unit"', wts='"none", "gen", "gen2"', degs="DegsT", maxnpts=6),
 "split_quick": dict(acts=S("CvSplit", "CvSplitJoin"), props=["SplitRestricts"], maxnpts=4),
 "split_thorough": dict(acts=S("CvSplit", "CvSplitJoin"), props=["SplitRestricts"], pts='"gen", "unit"', wts='"none", "gen", "gen2"', degs="DegsT", maxnpts=6),
 "remove_quick": dict(acts=S("CvKnotInsert", "CvKnotRemove"), scenario="history", prep=1, depth=2, maxnpts=4, nodesize=2, props=["RemoveExactOrRefused"], wts='"none", "gen", "const"', pts='"gen", "homlin", "negw"'),
 "remove_thorough": dict(acts=S("CvKnotInsert", "CvKnotRemove"), scenario="history", prep=1, depth=2, maxnpts=5, degs="DegsT", nodesize=2, props=["RemoveExactOrRefused"], wts='"none", "gen", "gen2"'),
 "remove_narrow_quick": dict(acts=S("CvKnotRemove", "CvDegreeDecrease"), breaks="BreaksN", degs="DegsN", maxnpts=5, nodesize=2, wts='"none", "gen"', pts='"gen", "pos"'),
 "decrease_quick": dict(acts=S("CvDegreeIncrease", "CvDegreeDecrease"), scenario="history", prep=1, depth=2, maxnpts=4, props=["ReduceExactOrRefused"], wts='"none", "gen", "const"', pts='"gen", "homlin", "negw"'),
 "decrease_thorough": dict(acts=S("CvDegreeIncrease", "CvDegreeDecrease"), scenario="history", prep=1, depth=2, maxnpts=5, degs="DegsT", props=["ReduceExactOrRefused"], wts='"none", "gen", "gen2"'),
 "join_quick": dict(acts=S("CvSplitTake", "CvJoin"), depth=2, maxnpts=4, omax=3, props=["JoinRestores"], wts='"none", "gen"'),
 "join_thorough": dict(acts=S("CvSplitTake", "CvJoin"), depth=2, maxnpts=5, omax=4, degs="DegsT", props=["JoinRestores"], wts='"none", "gen"'),
 "arith_quick": dict(acts=S("CvArith", "CvScalar"), maxnpts=4, omax=3, pts='"gen", "pos"'),
 "arith_thorough": dict(acts=S("CvArith", "CvScalar"), maxnpts=5, omax=4, pts='"gen", "pos"', wts='"none", "gen", "gen2"'),
 "eq_quick": dict(acts=S("CvEq"), maxnpts=4, pts='"gen", "flat"'),
 "eq_thorough": dict(acts=S("CvEq"), maxnpts=5, degs="DegsT", wts='"none", "gen", "gen2", "const"', pts='"gen", "flat"'),
 "clean_quick": dict(acts=S("CvKnotInsert", "CvDegreeIncrease", "CvClean"), scenario="history", prep=1, depth=3, maxnpts=4, nodesize=1, props=["CleanProps"], wts='"none", "gen"', pts='"gen", "homlin", "bump", "negw"'),
 "wide_clean_quick": dict(acts=S("CvKnotInsert", "CvClean"), scenario="history", prep=1, depth=2, breaks="BreaksW", degs="DegsW", maxnpts=9, nodesize=1, props=["CleanProps"], wts='"none"', pts='"gen"'),
 "clean_thorough": dict(acts=S("CvKnotInsert", "CvDegreeIncrease", "CvClean"), scenario="history", prep=2, depth=4, maxnpts=4, nodesize=1, props=["CleanProps"], wts='"none", "gen", "const"', pts='"gen", "homlin", "bump"'),
 "misc_quick": dict(acts=S("CvCopy", "CvFraction"), maxnpts=4),
 "deriv_quick": dict(acts=S("CvDerivate"), props=["DerivFormulaAgrees"]),
 # two interior knots of full multiplicity (two discontinuities) need npts = 3 (p + 1): beyond MaxNpts = 5 of deriv_quick
 "deriv_disc_quick": dict(acts=S("CvDerivate"), props=["DerivFormulaAgrees"], degs="DegsN", maxnpts=9),
 "deriv_thorough": dict(acts=S("CvDerivate"), props=["DerivFormulaAgrees"], degs="Degs4", maxnpts=7, wts='"none", "gen", "gen2"'),
 "integ_quick": dict(acts=S("CvIntegrate", "IntegrateFn"), props=["IntegralAgrees"], wts='"none"'),
 "integ_thorough": dict(acts=S("CvIntegrate", "IntegrateFn"), props=["IntegralAgrees"], wts='"none"', degs="Degs4", maxnpts=8, pts='"gen", "unit"'),
 "fitcurve_quick": dict(acts=S("CvFitCurve", "CvFitInRational"), wts='"none"', pts='"pos", "ratlin"', maxnpts=4, omax=4),
 "fitcurve_gap_quick": dict(acts=S("CvFitCurve"), wts='"none"', pts='"pos"', degs="Degs3", odegs="Degs0", maxnpts=5, omax=3),
 "fitcurve_bezier_quick": dict(acts=S("CvFitCurve"), wts='"none"', pts='"pos"', breaks="BreaksB", degs="Degs6", odegs="Degs7", maxnpts=14, omax=15),
 "fitcurve_thorough": dict(acts=S("CvFitCurve", "CvFitInRational"), wts='"none"', pts='"pos", "ratlin"', maxnpts=5, omax=5, degs="DegsT", odegs="DegsT"),
 "fitpoints_quick": dict(acts=S("CvFitPoints", "CvFitFunction"), pts='"pos"', maxnpts=4),
 "fitpoints_thorough": dict(acts=S("CvFitPoints", "CvFitFunction"), pts='"pos"', maxnpts=6, degs="DegsT", wts='"none", "gen", "gen2"'),
}

for name, ov in ROWS.items():
    c = dict(BASE); c.update(ov)
    props = "\n".join(f"PROPERTY {p}" for p in c["props"])
    txt = f"""SPECIFICATION Spec
CONSTANTS
  ArgsOf <- MCArgs
  InitHeaps <- MCInit2
  MaxDepth = {c['depth']}
  Breaks <- {c['breaks']}
  Degs <- {c['degs']}
  MaxNpts = {c['maxnpts']}
  Acts = {{{c['acts']}}}
  PtKinds = {{{c['pts']}}}
  WtKinds = {{{c['wts']}}}
  ExtraNodes <- {c['extra']}
  NodeSize = {c['nodesize']}
  Scenario = "{c['scenario']}"
  PrepDepth = {c['prep']}
  OtherDegs <- {c['odegs']}
  OtherMaxNpts = {c['omax']}
INVARIANT WellFormed
PROPERTY FailedIsNoOp
{props}
ACTION_CONSTRAINT Log
VIEW View
CHECK_DEADLOCK FALSE
"""
    with open(os.path.join(SPEC, f"MC_Curve_{name}.cfg"), "w") as f:
        f.write(txt)
MISC = {
 "gen_quick": dict(acts=S("KvGen"), maxp=3, extra=3, memon=2, rich="FALSE", depth=1, props=["GenProps"]),
 "gen_thorough": dict(acts=S("KvGen"), maxp=5, extra=6, memon=2, rich="FALSE", depth=1, props=["GenProps"]),
 "memo_quick": dict(acts=S("MemoRequest"), maxp=1, extra=1, memon=4, rich="FALSE", depth=2, props=["MemoMonotone"]),
 "memo_thorough": dict(acts=S("MemoRequest"), maxp=1, extra=1, memon=5, rich="FALSE", depth=3, props=["MemoMonotone"]),
 "length_quick": dict(acts=S("GeoLength"), maxp=1, extra=1, memon=2, rich="TRUE", depth=1, props=[]),
 "project_quick": dict(acts=S("GeoProject", "GeoProjectOn"), maxp=1, extra=1, memon=2, rich="FALSE", depth=1, props=[]),
 "project_thorough": dict(acts=S("GeoProject", "GeoProjectOn"), maxp=1, extra=1, memon=2, rich="TRUE", depth=1, props=[]),
 "intersect_quick": dict(acts=S("GeoIntersect", "GeoIntersectCurved"), maxp=1, extra=1, memon=2, rich="FALSE", depth=1, props=[]),
 "intersect_thorough": dict(acts=S("GeoIntersect", "GeoIntersectCurved"), maxp=1, extra=1, memon=2, rich="TRUE", depth=1, props=[]),
}
for name, c in MISC.items():
    props = "\n".join(f"PROPERTY {p}" for p in c["props"])
    txt = f"""SPECIFICATION Spec
CONSTANTS
  ArgsOf <- MCArgs
  InitHeaps <- MCInit
  MaxDepth = {c['depth']}
  Acts = {{{c['acts']}}}
  MaxP = {c['maxp']}
  MaxExtra = {c['extra']}
  MemoN = {c['memon']}
  GeoRich = {c['rich']}
{props}
ACTION_CONSTRAINT Log
VIEW View
CHECK_DEADLOCK FALSE
"""
    with open(os.path.join(SPEC, f"MC_Misc_{name}.cfg"), "w") as f:
        f.write(txt)
print(len(ROWS) + len(MISC), "cfg files written")
