"""Vector-valued control points.  The specification works with scalar control points; every operation of the
library acts coordinate-wise.  TLC's universes contain, for the same knot vector, weights and action, at least
two different control-point vectors (Gen1, Gen2, ...).  This module PAIRS such transitions: it builds ONE curve
with 2-D points (P1_i, P2_i) (numpy object arrays of Fractions), performs the call once on the real library and
compares coordinate k of the result with the specification's result for the k-th scalar scenario.  It exercises
the numpy code paths for multi-dimensional points (np.dot / moveaxis / max-abs error) that scalar points do not.
"""
from __future__ import annotations

import json
from fractions import Fraction

from . import core
from .core import fr, rat
from .replay import Replayer, class_matches

PAIRABLE = {"CvEval", "CvKnotInsert", "CvDegreeIncrease", "CvSplit", "CvKnotRemove", "CvDegreeDecrease", "CvClean",
            "CvJoin", "CvCopy", "CvDerivate"}   # (Integrate.scalar is, by its name and its property, for scalar curves)


def _key(t):
    a = {k: v for k, v in t["act"].items()}
    pre = t["pre"][a["obj"]]
    return json.dumps([pre["U"], pre["W"], a, t["d"]], sort_keys=True)


def pair_up(records):
    groups = {}
    for t in records:
        a = t["act"]
        if a["name"] not in PAIRABLE or "obj" not in a or t.get("ovf"):
            continue
        pre = t["pre"].get(a["obj"])
        if not pre or pre.get("kind") != "cv":
            continue
        groups.setdefault(_key(t), []).append(t)
    pairs = []
    for g in groups.values():
        seen = {}
        for t in g:
            seen.setdefault(json.dumps(t["pre"][t["act"]["obj"]]["P"]), t)
        ts = list(seen.values())
        if len(ts) >= 2:
            pairs.append((ts[0], ts[1]))
    return pairs


class VectorReplayer(Replayer):
    def build2(self, o1, o2):
        import numpy as np
        c = self.Curve(self.mode.nums(o1["U"]))
        arrays = [np.array([fr(a), fr(b)], dtype=object) for a, b in zip(o1["P"], o2["P"])]
        # the arrays handed to the library stay the CALLER's values: kept with a snapshot, compared after the call
        self.user_arrays = (arrays, [x.copy() for x in arrays])
        c.ctrlpoints = arrays
        if o1["W"]:
            c.weights = self.mode.pts(o1["W"])
        return c

    def user_arrays_changed(self):
        arrays, snap = getattr(self, "user_arrays", ([], []))
        return [i for i, (x, y) in enumerate(zip(arrays, snap)) if len(x) != len(y) or any(p != q for p, q in zip(x, y))]

    def curve_from(self, o):      # an operand given by value: both coordinates carry the same scalar curve
        import numpy as np
        c = self.Curve(self.mode.nums(o["U"]))
        c.ctrlpoints = [np.array([fr(a), fr(a)], dtype=object) for a in o["P"]]
        if o["W"]:
            c.weights = self.mode.pts(o["W"])
        return c

    def project(self, obj):
        """whole 2-D object as one comparable value (used for 'operand unchanged' snapshots)"""
        if isinstance(obj, self.Curve):
            P = obj.ctrlpoints
            W = obj.weights
            return {"kind": "cv", "U": [rat(x) for x in obj.knotvector],
                    "P": None if P is None else [[rat(p[0]), rat(p[1])] for p in P],
                    "W": [] if W is None else [rat(x) for x in W]}
        return super().project(obj)

    def project2(self, c):
        P = c.ctrlpoints
        W = c.weights
        out = []
        for k in (0, 1):
            out.append({"kind": "cv", "U": [rat(x) for x in c.knotvector],
                        "P": None if P is None else [rat(p[k]) for p in P],
                        "W": [] if W is None else [rat(x) for x in W]})
        return out


def fit_pairs(records):
    groups = {}
    for t in records:
        a = t["act"]
        if a["name"] != "CvFitCurve" or t.get("ovf"):
            continue
        o = a["other"]
        if o["W"] or t["pre"][a["obj"]]["W"]:
            continue
        groups.setdefault(json.dumps([t["pre"][a["obj"]]["U"], o["U"], a["nodes"]]), []).append(t)
    out = []
    for g in groups.values():
        seen = {}
        for t in g:
            seen.setdefault(json.dumps(t["act"]["other"]["P"]), t)
        ts = list(seen.values())
        if len(ts) >= 2:
            out.append((ts[0], ts[1]))
    return out


def vector_fit(records, lib, validator, on_fail):
    """fit_curve with a 2-D source: one CvFitCurve2 event per pair, judged by Trace.tla"""
    import numpy as np
    r = VectorReplayer(lib, "fraction")
    n = 0
    for t1, t2 in fit_pairs(records):
        a = t1["act"]
        U = t1["pre"][a["obj"]]["U"]
        o1, o2 = a["other"], t2["act"]["other"]
        S = r.Curve(r.mode.nums(U))
        C = r.build2(dict(o1, kind="cv"), dict(o2, kind="cv"))
        nodes = r.mode.nums(a["nodes"]) if a["nodes"] else None
        n += 1
        try:
            err = S.fit_curve(C, nodes) if nodes is not None else S.fit_curve(C)
            D = r.project2(S)
            e = rat(err) if not isinstance(err, float) else rat(Fraction(err))
        except Exception as ex:
            on_fail(t1, [f"fit_curve with 2-D points raised or returned inexact numbers: {type(ex).__name__}: {ex}"])
            continue
        strip = lambda o: {"U": o["U"], "P": o["P"], "W": o["W"]}
        validator.add({"name": "CvFitCurve2", "kv": U, "nodes": a["nodes"], "err": e, "d2": strip(D[1])},
                      c=strip(o1), b=strip(o2), d=strip(D[0]), tag=t1)
        # 3-D sources (x, x, y) and (y, x, x): the error is that of the worst of the THREE coordinates, wherever it stands;
        # judged by the same clauses with the first and the last coordinate (the middle one repeats one of them)
        for first, last in ((o1, o2), (o2, o1)):
            mid = o1
            S3 = r.Curve(r.mode.nums(U))
            C3 = r.Curve(r.mode.nums(first["U"]))
            C3.ctrlpoints = [np.array([fr(x), fr(y), fr(z)], dtype=object) for x, y, z in zip(first["P"], mid["P"], last["P"])]
            n += 1
            try:
                err3 = S3.fit_curve(C3, nodes) if nodes is not None else S3.fit_curve(C3)
                e3 = rat(err3) if not isinstance(err3, float) else rat(Fraction(err3))
                P3 = S3.ctrlpoints
                coords = [{"U": [rat(x) for x in S3.knotvector], "P": [rat(p[k]) for p in P3], "W": []} for k in range(3)]
            except Exception as ex:
                on_fail(t1, [f"fit_curve with 3-D points raised or returned inexact numbers: {type(ex).__name__}: {ex}"])
                continue
            same_as = 0 if mid is first else 2
            if coords[1]["P"] != coords[same_as]["P"]:
                on_fail(t1, ["fit_curve with 3-D points: two equal source coordinates were fitted differently"])
                continue
            validator.add({"name": "CvFitCurve2", "kv": U, "nodes": a["nodes"], "err": e3, "d2": coords[2], "dims": 3},
                          c=strip(first), b=strip(last), d=coords[0], tag=t1)
    return n


def vector_matmul(records, lib, validator, on_fail, limit=400):
    """A @ B for 2-D curves built from pairs of scalar scenarios; judged pointwise by Trace.tla"""
    r = VectorReplayer(lib, "fraction")
    byA, n = {}, 0
    for t in records:
        a = t["act"]
        if a["name"] != "CvArith" or a["op"] != "mul" or t.get("ovf"):
            continue
        A = t["pre"][a["obj"]]
        byA.setdefault(json.dumps([A["U"], A["W"]]), {}).setdefault(json.dumps(A["P"]), {}) \
            .setdefault(json.dumps([a["other"]["U"], a["other"]["W"]]), {})[json.dumps(a["other"]["P"])] = t
    strip = lambda o: {"U": o["U"], "P": o["P"], "W": o["W"]}
    for akey, byP in byA.items():
        Ps = list(byP.values())
        if len(Ps) < 2:
            continue
        for bkey in set(Ps[0]) & set(Ps[1]):
            bs = list(Ps[0][bkey].values())
            if len(bs) < 2 or n >= limit:
                continue
            t1 = bs[0]
            A1, A2 = Ps[0][bkey][json.dumps(bs[0]["act"]["other"]["P"])]["pre"][t1["act"]["obj"]], \
                list(Ps[1][bkey].values())[0]["pre"][t1["act"]["obj"]]
            B1, B2 = bs[0]["act"]["other"], bs[1]["act"]["other"]
            try:
                A = r.build2(A1, A2)
                B = r.build2(dict(B1, kind="cv"), dict(B2, kind="cv"))
            except Exception as e:
                on_fail(t1, [f"building 2-D operands raised {type(e).__name__}: {e}"])
                continue
            n += 1
            cls, R, exc = "ok", None, None
            try:
                R = A @ B
            except ValueError as e:
                cls, exc = "ValueError", e
            except Exception as e:
                cls, exc = "Error", e
            d, dv = None, []
            if cls == "ok":
                try:
                    d = strip(Replayer.project(r, R))
                    dv = r.observed_values("CvArith", strip(A1), strip(B1), d, R)
                except Exception as e:
                    on_fail(t1, [f"A @ B: result cannot be read back exactly: {type(e).__name__}: {e}"])
                    continue
                d = {"U": d["U"], "P": [x if core.fits32(x) else [0, 0] for x in d["P"]],
                     "W": [x if core.fits32(x) else [0, 0] for x in d["W"]]}
            validator.add({"name": "CvMatmul", "a2": strip(A2), "b2": strip(B2)}, c=strip(A1), b=strip(B1), d=d,
                          cls=cls, tag=t1, dv=dv)
    return n


def _coord_curve(r, R, k):
    """coordinate k of a 2-D result curve as a scalar projection + evaluator"""
    proj = r.project2(R)[k]
    return {"U": proj["U"], "P": proj["P"], "W": proj["W"]}, (lambda u: R(u)[k])


def vector_arith(records, lib, validator, on_fail, limit=300):
    """A op B with A carrying 2-D points and B a scalar curve (op in mul, div; add / sub need equal shapes): coordinate k of
    the result is judged by the clauses of the scalar scenario k.  Also B * A (scalar curve times 2-D curve)."""
    r = VectorReplayer(lib, "fraction")
    sr = Replayer(lib, "fraction")
    groups, n = {}, 0
    for t in records:
        a = t["act"]
        if a["name"] != "CvArith" or a["op"] not in ("mul", "div") or t.get("ovf") or t["ret"]["class"] != "ok":
            continue
        A = t["pre"][a["obj"]]
        groups.setdefault(json.dumps([A["U"], A["W"], a["op"], a["other"]]), {}).setdefault(json.dumps(A["P"]), t)
    strip = lambda o: {"U": o["U"], "P": o["P"], "W": o["W"]}
    for g in groups.values():
        ts = list(g.values())
        if len(ts) < 2 or n >= limit:
            continue
        t1, t2 = ts[0], ts[1]
        a = t1["act"]
        A1, A2 = t1["pre"][a["obj"]], t2["pre"][a["obj"]]
        forms = [("A op B", lambda A, B: A * B if a["op"] == "mul" else A / B)]
        if a["op"] == "mul":
            forms.append(("B * A", lambda A, B: B * A))
        for what, fn in forms:
            A = r.build2(A1, A2)
            B = sr.curve_from(a["other"])
            n += 1
            try:
                R = fn(A, B)
            except Exception as e:
                on_fail(t1, [f"{what} ({a['op']}) with 2-D points in A and a scalar curve B raised {type(e).__name__}: {e}"])
                continue
            for k, Ak in enumerate((A1, A2)):
                try:
                    d, ev = _coord_curve(r, R, k)
                    dv = r.observed_values("CvArith", strip(Ak), strip(a["other"]), d, ev)
                except Exception as e:
                    on_fail(t1, [f"{what} with 2-D points: result cannot be read back exactly: {type(e).__name__}: {e}"])
                    break
                act = {k2: v for k2, v in a.items() if k2 not in ("obj", "other", "form")}
                validator.add(act, c=strip(Ak), b=strip(a["other"]), d=d, cls="ok", tag=t1, dv=dv)
    return n


def vector_scalar_ops(records, lib, validator, on_fail, limit=300):
    """s*A, A*s, A/s, s+A ... and M @ A, A @ M on 2-D curves; every output coordinate is one event"""
    import numpy as np
    r = VectorReplayer(lib, "fraction")
    groups, n = {}, 0
    for t in records:
        a = t["act"]
        if a["name"] != "CvScalar" or t.get("ovf") or a["op"] == "s/A":
            continue
        A = t["pre"][a["obj"]]
        groups.setdefault(json.dumps([A["U"], A["W"], a["op"], a.get("s")]), {}).setdefault(json.dumps(A["P"]), t)
    strip = lambda o: {"U": o["U"], "P": o["P"], "W": o["W"]}
    done_linear = set()
    for g in groups.values():
        ts = list(g.values())
        if len(ts) < 2 or n >= limit:
            continue
        t1, t2 = ts[0], ts[1]
        a = t1["act"]
        A1, A2 = t1["pre"][a["obj"]], t2["pre"][a["obj"]]
        live = {a["obj"]: r.build2(A1, A2)}
        cls, val, exc = r.execute(live, a)
        n += 1
        if cls != "ok":
            on_fail(t1, [f"{a['op']} on a 2-D curve raised {type(exc).__name__}: {exc}"])
            continue
        R = val["curve"]
        for k, Ak in enumerate((A1, A2)):
            try:
                d, ev = _coord_curve(r, R, k)
                dv = r.observed_values("CvScalar", strip(Ak), {"U": [], "P": [], "W": []}, d, ev)
            except Exception as e:
                on_fail(t1, [f"{a['op']} on a 2-D curve: result cannot be read back exactly: {type(e).__name__}: {e}"])
                break
            act = {k2: v for k2, v in a.items() if k2 not in ("obj", "form")}
            validator.add(act, c=strip(Ak), d=d, cls="ok", tag=t1, dv=dv)
        # matrix forms, once per (U, W)
        key = json.dumps([A1["U"], A1["W"]])
        if key in done_linear:
            continue
        done_linear.add(key)
        M = np.array([[Fraction(2), Fraction(-1, 2)], [Fraction(1, 3), Fraction(3)]], dtype=object)
        for form in ("A@M", "M@A"):
            A = r.build2(A1, A2)
            try:
                R = A @ M if form == "A@M" else M @ A
            except Exception as e:
                # M @ A with a numpy M dispatches to numpy first; only the documented forms are demanded
                if form == "M@A":
                    continue
                on_fail(t1, [f"{form} raised {type(e).__name__}: {e}"])
                continue
            if not isinstance(R, r.Curve):
                continue
            n += 1
            for k in (0, 1):
                ca, cb = (M[0][k], M[1][k]) if form == "A@M" else (M[k][0], M[k][1])
                try:
                    d, ev = _coord_curve(r, R, k)
                    dv = r.observed_values("CvScalar", strip(A1), {"U": [], "P": [], "W": []}, d, ev)
                except Exception as e:
                    on_fail(t1, [f"{form}: result cannot be read back exactly: {type(e).__name__}: {e}"])
                    break
                validator.add({"name": "CvLinear", "form": form, "a": rat(ca), "b": rat(cb)}, c=strip(A1), b=strip(A2),
                              d=d, cls="ok", tag=t1, dv=dv)
    return n


def vector_fitpoints(records, lib, validator, on_fail):
    """fit_points with 2-D data: two data vectors for the same nodes are fitted at once"""
    import numpy as np
    r = VectorReplayer(lib, "fraction")
    groups, n = {}, 0
    for t in records:
        a = t["act"]
        if a["name"] != "CvFitPoints" or t.get("ovf") or t["ret"]["class"] != "ok":
            continue
        pre = t["pre"][a["obj"]]
        groups.setdefault(json.dumps([pre["U"], pre["W"], a["nodes"], a["dflt"]]), {}).setdefault(json.dumps(a["data"]), t)
    for g in groups.values():
        ts = list(g.values())
        if len(ts) < 2:
            continue
        t1, t2 = ts[0], ts[1]
        a = t1["act"]
        pre = t1["pre"][a["obj"]]
        S = r.Curve(r.mode.nums(pre["U"]))
        if pre["W"]:
            S.weights = r.mode.pts(pre["W"])
        data = [np.array([fr(x), fr(y)], dtype=object) for x, y in zip(t1["act"]["data"], t2["act"]["data"])]
        n += 1
        try:
            if a["dflt"]:
                S.fit_points(data)
            else:
                S.fit_points(data, r.mode.nums(a["nodes"]))
            D = r.project2(S)
        except Exception as e:
            on_fail(t1, [f"fit_points with 2-D data raised or returned inexact numbers: {type(e).__name__}: {e}"])
            continue
        for k, t in enumerate((t1, t2)):
            validator.add({"name": "CvFitPoints", "kv": pre["U"], "weights": pre["W"], "nodes": a["nodes"], "data": t["act"]["data"]},
                          d={"U": D[k]["U"], "P": D[k]["P"], "W": D[k]["W"]}, tag=t)
    return n


def vector_replay(records, lib, on_fail, arrays_only=False):
    """returns the number of paired calls executed.  arrays_only (C15): only the question whether the numpy arrays that
    were handed in as control points are still what the caller made them"""
    r = VectorReplayer(lib, "fraction")
    n = 0
    for t1, t2 in pair_up(records):
        a = t1["act"]
        name = a["name"]
        obj = a["obj"]
        n += 1
        fails = []
        try:
            live = {obj: r.build2(t1["pre"][obj], t2["pre"][obj])}
        except Exception as e:
            on_fail(t1, [f"vector points: building the curve raised {type(e).__name__}: {e}"])
            continue
        if "b" in t1["pre"]:
            live["b"] = None
        cls, val, exc = r.execute(live, a)
        changed = r.user_arrays_changed() if arrays_only else []
        if arrays_only and not changed:
            continue
        if changed:
            fails.append(f"the numpy arrays passed as control points were modified in place by {name} (indices {changed}): "
                         "another curve built from the same arrays, or the caller, sees other points now")
        c1, c2 = t1["ret"]["class"], t2["ret"]["class"]
        # the joint outcome: both coordinates succeed => success; one refuses => the call must refuse
        if c1 == c2:
            want_cls = c1
        elif "any" in (c1, c2):
            want_cls = "any"
        else:
            want_cls = "Error"
        if not class_matches(want_cls, cls):
            fails.append(f"outcome with 2-D points: spec {want_cls} (coordinates: {c1}, {c2}), code {cls}"
                         + (f" ({type(exc).__name__}: {exc})" if exc else ""))
        sem = t1["ret"].get("rel") == "sem" or t2["ret"].get("rel") == "sem"
        try:
            got = r.project2(live[obj])
        except TypeError as e:
            on_fail(t1, fails + [f"vector points: inexact number in the state: {e}"])
            continue
        except Exception as e:
            on_fail(t1, fails + [f"vector points: state cannot be read back: {type(e).__name__}: {e}"])
            continue
        if cls != "ok":
            for k, t in enumerate((t1, t2)):
                if not r.same_obj(got[k], t["pre"][obj]):
                    fails.append(f"state after a refused call changed (coordinate {k})")
        elif not sem and c1 == "ok" and c2 == "ok" and t1["post"][obj]["U"] == t2["post"][obj]["U"]:
            # (when the two coordinates simplify differently - clean / removal - the joint result is neither)
            for k, t in enumerate((t1, t2)):
                if not r.same_obj(got[k], t["post"][obj]):
                    fails.append(f"coordinate {k} of the state: got {got[k]}, spec {t['post'][obj]}")
            if not fails:
                fails += compare_values(r, name, (t1, t2), val)
        if not fails and not arrays_only and cls == "ok" and isinstance(val, dict):
            # returned 2-D curves are mutated (their point arrays in place): the receiver must not follow
            fails += r.check_independent(live, a, val)
        if fails:
            on_fail(dict(t1, _pair=t2), fails)
    return n


def compare_values(r, name, ts, val):
    f = []
    if name == "CvEval":
        vals = val["vals"]
        vals = list(vals)
        for k, t in enumerate(ts):
            want = t["ret"]["val"]
            if len(vals) != len(want):
                return [f"{len(vals)} values for {len(want)} nodes"]
            for i, w in enumerate(want):
                try:
                    g = rat(vals[i][k])
                except TypeError:
                    f.append(f"value {i}, coordinate {k}: inexact {vals[i][k]!r}")
                    continue
                if list(g) != list(w):
                    f.append(f"value at node {t['act']['nodes'][i]}, coordinate {k}: got {vals[i][k]}, spec {fr(w)}")
    elif name == "CvDerivate":
        D = val["D"]
        for k, t in enumerate(ts):
            for u, w in t["ret"]["val"]:
                try:
                    got = D(fr(u))
                    g = float(got[k])
                except Exception as e:
                    return f + [f"derivative of a curve with 2-D points at {fr(u)}: {type(e).__name__}: {e}"]
                if not abs(g - float(fr(w))) <= 1e-9 * max(1.0, abs(float(fr(w)))):
                    f.append(f"derivative at {fr(u)}, coordinate {k}: got {g!r}, spec {float(fr(w))!r}")
    elif name == "CvIntegrate":
        for k, t in enumerate(ts):
            try:
                g = float(val["I"][k])
            except Exception as e:
                return f + [f"integral of a curve with 2-D points: {type(e).__name__}: {e}"]
            w = float(fr(t["ret"]["val"]))
            if not abs(g - w) <= 1e-9 * max(1.0, abs(w)):
                f.append(f"integral, coordinate {k}: got {g!r}, spec {w!r}")
    elif name == "CvSplit":
        pieces = val["pieces"]
        for k, t in enumerate(ts):
            want = t["ret"]["val"]
            if len(pieces) != len(want):
                return [f"{len(pieces)} pieces, spec {len(want)}"]
            for i, (g, w) in enumerate(zip(pieces, want)):
                try:
                    pg = r.project2(g)[k]
                except TypeError as e:
                    f.append(f"piece {i}: inexact number: {e}")
                    continue
                if not r.same_obj(pg, dict(w, kind="cv")):
                    f.append(f"piece {i}, coordinate {k}: got {pg}, spec {w}")
    elif name == "CvJoin":
        if all(t["ret"].get("rel") == "exact" for t in ts) and ts[0]["ret"]["val"]["U"] != ts[1]["ret"]["val"]["U"]:
            return f   # the coordinates need different junction multiplicities: the joint result is neither
        for k, t in enumerate(ts):
            if t["ret"].get("rel") != "exact":
                continue
            try:
                pg = r.project2(val["curve"])[k]
            except TypeError as e:
                f.append(f"join: inexact number: {e}")
                continue
            if not r.same_obj(pg, dict(t["ret"]["val"], kind="cv")):
                f.append(f"join, coordinate {k}: got {pg}, spec {t['ret']['val']}")
    return f
