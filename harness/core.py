"""Shared machinery: paths, TLC runner, rational <-> JSON conversion, evidence,
violations and known findings.

Exit codes of a check: 0 held / 1 violation (VIOLATION line printed) / 2 machinery failure.
"""
from __future__ import annotations

import hashlib
import json
import os
import re
import shutil
import subprocess
import sys
import tempfile
import time
import warnings
from fractions import Fraction

VERIF = os.path.dirname(os.path.dirname(os.path.abspath(__file__)))
SPEC = os.path.join(VERIF, "spec")
REPO = os.environ.get("VERIF_REPO", "/repo")
# (tools that run the checks against scratch worktrees point this elsewhere, so that the committed evidence always
# describes runs against /repo itself)
EVIDENCE_DIR = os.environ.get("VERIF_EVIDENCE_DIR") or os.path.join(VERIF, "evidence")
REPLAY_DIR = os.path.join(VERIF, "replays")
KNOWN_FINDINGS = os.environ.get("VERIF_KNOWN_FINDINGS", os.path.join(VERIF, "known_findings.json"))  # override: self-test only
TLA_JAR = "/opt/veriftools/tla/tla2tools.jar:/opt/veriftools/tla/CommunityModules-deps.jar"
WORKERS = int(os.environ.get("VERIF_WORKERS", "16"))


class MachineryError(Exception):
    pass


def import_lib():
    """Import compmec.nurbs from the working tree under test (never a stale copy)."""
    src = os.path.join(REPO, "src")
    if sys.path[0] != src:
        sys.path.insert(0, src)
    warnings.filterwarnings("ignore", category=SyntaxWarning)
    for name in [m for m in sys.modules if m.startswith("compmec")]:
        del sys.modules[name]
    import compmec.nurbs as lib  # noqa

    got = os.path.realpath(os.path.dirname(lib.__file__))
    want = os.path.realpath(os.path.join(src, "compmec", "nurbs"))
    if got != want:
        raise MachineryError(f"imported compmec.nurbs from {got}, expected {want}")
    return lib


# --------------------------------------------------------------------------- rationals
def fr(x):
    """JSON [n, d] -> Fraction"""
    return Fraction(int(x[0]), int(x[1]))


def frs(xs):
    return [fr(x) for x in xs]


def rat(x):
    """number -> JSON [n, d] (exact); raises if not exactly rational"""
    if isinstance(x, bool):
        raise TypeError("bool is not a number here")
    if isinstance(x, int):
        return [int(x), 1]
    if isinstance(x, Fraction):
        return [x.numerator, x.denominator]
    try:
        import numpy as np

        if isinstance(x, np.integer):
            return [int(x), 1]
        if isinstance(x, np.ndarray) and x.shape == ():      # a 0-d object array around one exact number
            return rat(x.item())
    except ImportError:  # pragma: no cover
        pass
    raise TypeError(f"not an exact rational: {x!r} ({type(x).__name__})")


def rats(xs):
    return [rat(x) for x in xs]


INT_LIMIT = 2**31 - 1


def fits32(obj, limit=INT_LIMIT):
    """all integers inside a JSON-able structure are < limit in magnitude"""
    if isinstance(obj, bool):
        return True
    if isinstance(obj, int):
        return abs(obj) < limit
    if isinstance(obj, (list, tuple)):
        return all(fits32(x, limit) for x in obj)
    if isinstance(obj, dict):
        return all(fits32(x, limit) for x in obj.values())
    return True


def is_exact(x):
    import numpy as np

    return isinstance(x, (int, Fraction, np.integer)) and not isinstance(x, bool)


# --------------------------------------------------------------------------- TLC
class TLCResult:
    def __init__(self):
        self.records = []  # parsed JSON objects printed by PrintT(ToJson(..)) / PrintT(<<..>>)
        self.tuples = []  # raw "<<...>>" lines
        self.generated = 0
        self.distinct = 0
        self.depth = 0
        self.ok = False
        self.violation = None  # text of a TLC-reported invariant / property violation
        self.error = None  # any other TLC error text
        self.wall = 0.0
        self.coverage = {}
        self.raw_tail = ""
        self.cmd = ""


_re_states = re.compile(r"^(\d[\d,]*) states generated, (\d[\d,]*) distinct states found")
_re_depth = re.compile(r"The depth of the complete state graph search is (\d+)")
_re_cov = re.compile(r"^<(\w+) line (\d+), col (\d+) to line (\d+), col (\d+) of module (\w+)>: (\d+):(\d+)")


def run_tlc(module, cfg, *, workers=None, timeout=1800, env=None, extra=(), simulate=None,
            coverage=False, keep_tuples=False, cwd=SPEC, javaopts=()):
    """Run TLC on spec/<module>.tla with spec/<cfg>.  Returns TLCResult.

    Lines of the form "...json..." printed by PrintT(ToJson(x)) are decoded into res.records.
    """
    workers = workers or WORKERS
    meta = tempfile.mkdtemp(prefix="verif_tlc_")
    cmd = ["java", "-XX:+UseParallelGC", *javaopts, "-cp", TLA_JAR, "tlc2.TLC",
           "-workers", str(workers), "-metadir", meta, "-noGenerateSpecTE"]
    if coverage:
        cmd += ["-coverage", "1"]
    if simulate:
        cmd += ["-simulate", simulate]
    cmd += list(extra)
    cmd += ["-config", cfg, module]
    res = TLCResult()
    res.cmd = " ".join(cmd)
    t0 = time.time()
    e = dict(os.environ)
    if env:
        e.update(env)
    try:
        proc = subprocess.Popen(cmd, cwd=cwd, env=e, stdout=subprocess.PIPE, stderr=subprocess.STDOUT,
                                text=True, errors="replace")
        other = []
        try:
            for line in proc.stdout:
                line = line.rstrip("\n")
                if line.startswith('"{') or line.startswith('"['):
                    try:
                        res.records.append(json.loads(json.loads(line)))
                        continue
                    except Exception:
                        pass
                if keep_tuples and line.startswith("<<"):
                    res.tuples.append(line)
                    continue
                other.append(line)
                if time.time() - t0 > timeout:
                    proc.kill()
                    raise MachineryError(f"TLC timeout after {timeout}s: {res.cmd}")
            proc.wait(timeout=60)
        finally:
            if proc.poll() is None:
                proc.kill()
    finally:
        shutil.rmtree(meta, ignore_errors=True)
    res.wall = time.time() - t0
    text = "\n".join(other)
    res.raw_tail = "\n".join(other[-60:])
    for line in other:
        m = _re_states.match(line)
        if m:
            res.generated = int(m.group(1).replace(",", ""))
            res.distinct = int(m.group(2).replace(",", ""))
        m = _re_depth.search(line)
        if m:
            res.depth = int(m.group(1))
        m = _re_cov.match(line)
        if m:
            res.coverage[m.group(1)] = res.coverage.get(m.group(1), 0) + int(m.group(7))
    if "Model checking completed. No error has been found." in text or (
            simulate and proc.returncode == 0):
        res.ok = True
    elif re.search(r"Error: (Invariant|Action property|Temporal properties).*violated|is violated", text):
        i = text.find("Error:")
        res.violation = text[i:i + 6000]
    else:
        i = text.find("Error")
        res.error = text[i:i + 4000] if i >= 0 else text[-4000:]
    return res


def need_ok(res, what):
    if res.error is not None or (not res.ok and res.violation is None):
        raise MachineryError(f"TLC failed on {what}:\n{res.error or res.raw_tail}\ncmd: {res.cmd}")


# --------------------------------------------------------------------------- evidence
class Evidence:
    def __init__(self, prop, tier, seed):
        self.prop = prop
        self.tier = tier
        self.seed = seed
        self.t0 = time.time()
        self.states = 0
        self.transitions = 0
        self.validated = 0
        self.samples = []
        self.extra = {}
        self.assumptions = []
        self.violations = 0
        self.known = 0

    def add_tlc(self, res, label):
        self.states += res.distinct
        self.transitions += res.generated
        self.extra.setdefault("tlc_runs", []).append(
            {"model": label, "distinct_states": res.distinct, "states_generated": res.generated,
             "depth": res.depth, "wall_s": round(res.wall, 2), "logged_transitions": len(res.records)})

    def sample(self, obj, limit=6):
        if len(self.samples) < limit:
            self.samples.append(obj if isinstance(obj, str) else json.dumps(obj, separators=(",", ":"), default=str))

    def write(self):
        os.makedirs(EVIDENCE_DIR, exist_ok=True)
        cov = {
            "states": self.states,
            "transitions": self.transitions,
            "traces_validated_against_impl": self.validated,
            "samples": self.samples or ["(none)"],
            "exhaustive": True,
            "exhaustive_scope": "every TLC instance listed in tlc_runs is enumerated completely (BFS to the depth bound) and every "
                                "logged transition is replayed; suite traces, random drivers and float trials are seeded samples on top",
        }
        cov.update(self.extra)
        doc = {
            "property_id": self.prop,
            "tier": self.tier,
            "seed": self.seed,
            "level": "model_checking",
            "coverage": cov,
            "assumptions": self.assumptions,
            "wall_s": round(time.time() - self.t0, 2),
            "violations": self.violations,
            "known_findings_seen": self.known,
        }
        path = os.path.join(EVIDENCE_DIR, f"{self.prop}.json")
        tmp = path + ".tmp"
        with open(tmp, "w") as f:
            json.dump(doc, f, indent=1, default=str)
        os.replace(tmp, path)
        return path


# --------------------------------------------------------------------------- violations
def load_known():
    if not os.path.exists(KNOWN_FINDINGS):
        return []
    with open(KNOWN_FINDINGS) as f:
        doc = json.load(f)
    return [e for e in doc.get("findings", []) if e.get("status", "open") == "open"]


def _sub(want, got):
    """want is contained in got (dicts recursively, everything else by equality)"""
    if isinstance(want, dict) and set(want) == {"$nonempty"}:      # a list field that is / is not empty
        return bool(got) == bool(want["$nonempty"])
    if isinstance(want, dict):
        return isinstance(got, dict) and all(k in got and _sub(v, got[k]) for k, v in want.items())
    return want == got


def _input_matches(spec, detail):
    """A known finding is identified by the failing INPUT, not only by the clause: 'input' = {"act": {...}, "obj": {...}}
    must be contained in the violation's action and in the receiver's pre-state.  Without 'input' the key decides."""
    if not spec:
        return True
    t = detail.get("transition") if isinstance(detail, dict) else None
    if not isinstance(t, dict) or "act" not in t:
        return False
    if not _sub(spec.get("act", {}), t["act"]):
        return False
    obj = t.get("pre", {}).get(t["act"].get("obj"), {})
    return _sub(spec.get("obj", {}), obj)


class Reporter:
    """Collects violations of one property; prints KNOWN-FINDING / VIOLATION lines at the end."""

    def __init__(self, prop, evidence):
        self.prop = prop
        self.ev = evidence
        self.known = [k for k in load_known() if k["property"] == prop]
        self.hit_known = {}
        self.new = []

    def violation(self, key, detail):
        """key: stable identification of the failing call site + input class;
        detail: JSON-able replay object"""
        for k in self.known:
            if re.fullmatch(k["key"], key) and _input_matches(k.get("input"), detail):
                self.hit_known.setdefault(k["key"], [k, 0])
                self.hit_known[k["key"]][1] += 1
                return
        self.new.append((key, detail))

    def finish(self):
        for kkey, (k, n) in self.hit_known.items():
            print(f"KNOWN-FINDING: property={self.prop} {k['what']} [{n} occurrence(s), key {kkey}]")
        self.ev.known = len(self.hit_known)
        self.ev.violations = len(self.new)
        if not self.new:
            return 0
        os.makedirs(REPLAY_DIR, exist_ok=True)
        if os.environ.get("VERIF_DUMP"):
            with open(os.environ["VERIF_DUMP"], "w") as f:
                for key, detail in self.new:
                    f.write(json.dumps({"key": key, "detail": detail}, default=str) + "\n")
        counts = {}
        for key, _ in self.new:
            counts[key] = counts.get(key, 0) + 1
        for key, n in sorted(counts.items()):
            print(f"  [{n:5d}] {key}")
        seen = set()
        for key, detail in self.new:
            if key in seen:
                continue
            seen.add(key)
            h = hashlib.sha1(json.dumps(detail, sort_keys=True, default=str).encode()).hexdigest()[:10]
            path = os.path.join(REPLAY_DIR, f"{self.prop}_{h}.json")
            with open(path, "w") as f:
                json.dump({"property": self.prop, "key": key, "detail": detail}, f, indent=1, default=str)
            print(f"VIOLATION property={self.prop} replay={path}")
            print(f"  key: {key}")
            if len(seen) >= 12:
                print(f"  ... {len(self.new)} violations in total, first 12 distinct keys written")
                break
        return 1


def seed():
    try:
        return int(os.environ.get("VERIF_SEED", "0"))
    except ValueError:
        return 0
