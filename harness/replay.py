"""Binding A: replay TLC-explored transitions of spec/Nurbs.tla into the real library.

A transition is the JSON object printed by Nurbs!Log:
  {"d": depth after, "pre": heap, "act": {...}, "ret": {"class":..,"val":..}, "post": heap, "obs": {...}}
Objects: {"kind":"kv","U":[[n,d]..]} | {"kind":"cv","U":..,"P":..,"W":..} | {"kind":"none"}.
"""
from __future__ import annotations

import copy as _copy
import json
from fractions import Fraction

from . import core
from .core import fr, frs, rat, rats

NAN = [0, 0]


class Mode:
    """number representation used when building real objects from spec values.
    num: knots / parameters / scalars;  pt: control points and weights"""

    name = "fraction"
    exact = True

    def num(self, q):
        if list(q) == NAN:
            return "not-a-number"
        return fr(q)

    def pt(self, q):
        return self.num(q)

    def nums(self, qs):
        return [self.num(q) for q in qs]

    def pts(self, qs):
        return [self.pt(q) for q in qs]

    def unnum(self, x):      # inverse maps (identity except in the huge-rational mode)
        return x

    def unpt(self, x):
        return x

    def wts(self, qs):       # weights: as control points unless a mode says otherwise
        return self.pts(qs)

    def unwt(self, x):
        return self.unpt(x)


class IntKnotMode(Mode):
    """knots, parameters, control points and weights as plain Python ints wherever the value is integral (the way the
    library's own documentation writes its examples; GeneratorKnotVector.integer makes int knots by default).  The
    library promises exact results for Fraction knots only, so this mode compares VALUES to 1e-9 and ignores types."""
    name = "int-knots"
    exact = False

    def num(self, q):
        if list(q) == NAN:
            return "not-a-number"
        f = fr(q)
        return int(f) if f.denominator == 1 else f

    def pt(self, q):
        return self.num(q)


class FarFloatMode(Mode):
    """float knots far from the origin with short spans: u -> 2^20 + u * 2^-10.  Only transitions whose knots and
    parameters are dyadic (exactly representable after the map) are replayed, so the float input IS the exact input and
    the spec's values (invariant under the affine map of the parameter) must be met to rounding; formulas that subtract
    large nearly equal numbers lose everything here"""
    name = "far-float"
    exact = False

    def num(self, q):
        if list(q) == NAN:
            return "not-a-number"
        f = fr(q)
        return float(2 ** 20 + f * Fraction(1, 2 ** 10))

    def pt(self, q):
        return float(fr(q))

    def unnum(self, x):
        return (Fraction(x) - 2 ** 20) * 2 ** 10


def dyadic(q):
    d = fr(q).denominator
    return (d & (d - 1)) == 0 and d <= 64


class StretchMode(Mode):
    """an ORDER-ISOMORPHIC image of the rationals: u for u <= 3, 10^13 * u above.  Everything a knot vector does except
    shift / scale / normalize / evaluation depends only on order and equality of the numbers, so the small spec state is
    still the oracle, while the real vectors get an interval 10^13 times longer than their smallest knot gap: code
    whose tolerances scale with the interval, or that rounds through floats, shows here"""
    name = "stretch"
    BIG = 10 ** 13

    def num(self, q):
        if list(q) == NAN:
            return "not-a-number"
        x = fr(q)
        return x if x <= 3 else x * self.BIG

    def unnum(self, x):
        return x if x <= 3 else x / self.BIG


class TinyWeightMode(Mode):
    """every weight multiplied by 1e-12 (exactly): a rational curve does not depend on the scale of its weights, all
    operations with a unique result are linear in (w P, w), so the small spec state is still the oracle; code that
    compares weights or denominators with an absolute tolerance shows here"""
    name = "tiny-weights"
    L = Fraction(1, 10 ** 12)

    def wts(self, qs):
        return [self.L * fr(q) for q in qs]

    def unwt(self, x):
        return x / self.L


class HugeMode(Mode):
    """huge rationals: knots and parameters are mapped by u -> S u + A, control points and weights by x -> M x with
    80-bit S, A, M.  By the lemmas ReparamInvariant and linearity (checked by TLC in MC_Oracle) the curve over the
    mapped data at S u + A is M times the curve at u, so the small spec state is still the oracle; intermediates
    overflow 64 bits everywhere."""
    name = "huge"
    S = Fraction(2 ** 80 + 13, 3 ** 40 + 2)
    A = Fraction(-(5 ** 30) - 7, 2 ** 61 - 1)
    M = Fraction(7 ** 28 + 1, 11 ** 19)

    def num(self, q):
        if list(q) == NAN:
            return "not-a-number"
        return self.S * fr(q) + self.A

    def pt(self, q):
        return self.M * fr(q)

    def unnum(self, x):
        return (x - self.A) / self.S

    def unpt(self, x):
        return x / self.M


class IntMode(Mode):
    """Fraction knots and parameters, int control points and weights where the value is integral
    (the combination the property promises exact results for)"""
    name = "int"

    def pt(self, q):
        f = fr(q)
        return int(f) if f.denominator == 1 else f


class FloatMode(Mode):
    name = "float"
    exact = False

    def num(self, q):
        if list(q) == NAN:
            return "not-a-number"
        return float(fr(q))


class NpFloatMode(Mode):
    name = "numpy.float64"
    exact = False

    def num(self, q):
        import numpy as np

        if list(q) == NAN:
            return "not-a-number"
        return np.float64(float(fr(q)))


class MinPt:
    """a minimal user-defined point: supports only point + point and scalar * point (C16)"""
    __slots__ = ("v",)

    def __init__(self, v):
        self.v = v

    def __add__(self, other):
        if not isinstance(other, MinPt):
            return NotImplemented
        return MinPt(self.v + other.v)

    def __rmul__(self, scalar):
        if isinstance(scalar, MinPt):
            return NotImplemented
        return MinPt(scalar * self.v)

    def __repr__(self):
        return f"MinPt({self.v})"


class MinPointMode(Mode):
    """Fraction knots and parameters, control points of the minimal point type"""
    name = "minimal-point"

    def pt(self, q):
        return MinPt(fr(q))


MODES = {"int-knots": IntKnotMode, "far-float": FarFloatMode, "stretch": StretchMode, "tiny-weights": TinyWeightMode, "huge": HugeMode, "minimal-point": MinPointMode, "fraction": Mode, "int": IntMode, "float": FloatMode, "numpy.float64": NpFloatMode}


def classify(exc):
    if exc is None:
        return "ok"
    if isinstance(exc, ValueError):
        return "ValueError"
    return "Error"


def class_matches(expected, got):
    if expected == "any":
        return True
    if expected == "Error":  # "rejected with some exception"
        return got != "ok"
    return expected == got


def close(a, b, tol=1e-9):
    a = float(a)
    b = float(b)
    return abs(a - b) <= tol * max(1.0, abs(a), abs(b))


MUTATING_SEM = {"CvKnotRemove", "CvDegreeDecrease", "CvClean", "CvSetKnotvector", "CvFitCurve", "CvFitPoints",
                "CvFitInRational"}


class CallTimeout(Exception):
    pass


def with_timeout(fn, seconds):
    """run fn() under SIGALRM (main thread of a worker process)"""
    import signal

    def handler(signum, frame):
        raise CallTimeout(f"call did not return within {seconds}s")

    old = signal.signal(signal.SIGALRM, handler)
    signal.alarm(seconds)
    try:
        return fn()
    finally:
        signal.alarm(0)
        signal.signal(signal.SIGALRM, old)
PURE_SEM = {"CvJoin", "CvArith", "CvScalar"}


def strip_curve(o):
    return {"U": o["U"], "P": o["P"], "W": o["W"]}


class Replayer:
    def __init__(self, lib, mode="fraction", validator=None):
        self.validator = validator
        self.lib = lib
        self.mode = MODES[mode]()
        self.KnotVector = lib.KnotVector
        self.Curve = lib.Curve
        self.Function = lib.Function

    # ---------------------------------------------------------------- build / project
    def build_obj(self, o):
        if o["kind"] == "none":
            return None
        if o["kind"] == "shard":
            return o
        if o["kind"] == "kv":
            return self.KnotVector(self.mode.nums(o["U"]))
        if o["kind"] == "cv":
            c = self.Curve(self.mode.nums(o["U"]))
            c.ctrlpoints = self.mode.pts(o["P"])
            if o["W"]:
                c.weights = self.mode.wts(o["W"])
            return c
        raise core.MachineryError(f"unknown object kind {o}")

    def build(self, heap):
        live = {k: self.build_obj(v) for k, v in heap.items()}
        if "k" in heap and heap["k"]["kind"] == "kv":
            # curves whose knot vector equals k's are built FROM THE SAME KnotVector object (siblings)
            kobj = live["k"]
            for name, o in heap.items():
                if o["kind"] == "cv" and o["U"] == heap["k"]["U"]:
                    c = self.Curve(kobj)
                    c.ctrlpoints = self.mode.pts(o["P"])
                    if o["W"]:
                        c.weights = self.mode.wts(o["W"])
                    live[name] = c
        return live

    def num_out(self, x):
        """observed number -> comparable: exact JSON rational in exact modes, float otherwise"""
        if isinstance(x, MinPt):
            x = x.v
        if self.mode.exact:
            return rat(x)  # raises TypeError if a float sneaked in
        return float(x)

    def project(self, obj):
        if obj is None:
            return {"kind": "none"}
        if isinstance(obj, dict):
            return obj
        m = self.mode
        if isinstance(obj, self.KnotVector):
            return {"kind": "kv", "U": [self.num_out(m.unnum(x)) for x in obj]}
        if isinstance(obj, self.Curve):
            P = obj.ctrlpoints
            W = obj.weights
            return {"kind": "cv", "U": [self.num_out(m.unnum(x)) for x in obj.knotvector],
                    "P": None if P is None else [self.num_out(m.unpt(x)) for x in P],
                    "W": [] if W is None else [self.num_out(m.unwt(x)) for x in W]}
        raise core.MachineryError(f"cannot project {type(obj)}")

    def same_nums(self, got, want):
        """got: projected numbers (JSON rationals or floats); want: JSON rationals from the spec"""
        if got is None or len(got) != len(want):
            return False
        if self.mode.exact:
            return [list(g) for g in got] == [list(w) for w in want]
        return all(close(g, fr(w)) for g, w in zip(got, want))

    def same_obj(self, got, want):
        if got["kind"] != want["kind"]:
            return False
        if got["kind"] == "none":
            return True
        if got["kind"] not in ("kv", "cv"):
            return got == want
        if not self.same_nums(got["U"], want["U"]):
            return False
        if got["kind"] == "kv":
            return True
        return self.same_nums(got["P"], want["P"]) and self.same_nums(got["W"], want["W"])

    # ---------------------------------------------------------------- execution
    def execute(self, live, act):
        """perform act on the live heap; returns (class, value, exception)"""
        h = getattr(self, "do_" + act["name"], None)
        if h is None:
            raise core.MachineryError(f"no handler for action {act['name']}")
        try:
            val = h(live, act)
            return "ok", val, None
        except core.MachineryError:
            raise
        except Exception as e:  # the library's refusal
            return classify(e), None, e

    # KnotVector actions
    def do_KvNew(self, live, a):
        seq = self.mode.nums(a["seq"])
        if "not-a-number" in seq:
            # the spec's NaN stands for everything that is no number: a string here, and the IEEE nan (numeric type, but
            # unordered) in a second construction that must be refused just the same
            nanseq = [float("nan") if x == "not-a-number" else x for x in seq]
            try:
                kv = self.KnotVector(nanseq) if a["deg"] == -1 else self.KnotVector(nanseq, a["deg"])
            except ValueError:
                kv = None
            if kv is not None:
                raise AssertionError(f"KnotVector({nanseq}) with a float nan was accepted: {list(kv)}")
        if a["deg"] == -1:
            live[a["obj"]] = self.KnotVector(seq)
        else:
            live[a["obj"]] = self.KnotVector(seq, a["deg"])

    def do_KvInsert(self, live, a):
        kv = live[a["obj"]]
        nodes = self.mode.nums(a["nodes"])
        if a.get("form") == "iadd":
            kv += nodes
            if kv is not live[a["obj"]]:
                raise core.MachineryError("+= rebinding")
        else:
            r = kv.insert(nodes)
            return {"same": r is kv}

    def do_KvRemove(self, live, a):
        kv = live[a["obj"]]
        nodes = self.mode.nums(a["nodes"])
        if a.get("form") == "isub":
            kv -= nodes
        else:
            kv.remove(nodes)

    def do_KvShift(self, live, a):
        kv = live[a["obj"]]
        by = self.mode.num(a["by"])
        if a.get("form") == "iadd":
            kv += by
        else:
            kv.shift(by)

    def do_KvScale(self, live, a):
        kv = live[a["obj"]]
        by = self.mode.num(a["by"])
        f = a.get("form", "scale")
        if f == "imul":
            kv *= by
        elif f == "itruediv":
            kv /= 1 / by
        else:
            kv.scale(by)

    def do_KvNormalize(self, live, a):
        live[a["obj"]].normalize()

    def do_KvSetDegree(self, live, a):
        live[a["obj"]].degree = a["deg"]

    def do_KvIOr(self, live, a):
        kv = live[a["obj"]]
        other = self.KnotVector(self.mode.nums(a["other"]))
        snap = list(other)
        kv |= other
        live[a["obj"]] = kv
        if list(other) != snap:
            raise AssertionError("operand of |= modified")

    def do_KvIAnd(self, live, a):
        kv = live[a["obj"]]
        other = self.KnotVector(self.mode.nums(a["other"]))
        snap = list(other)
        kv &= other
        live[a["obj"]] = kv
        if list(other) != snap:
            raise AssertionError("operand of &= modified")

    def do_KvOr(self, live, a):
        other = self.KnotVector(self.mode.nums(a["other"]))
        snap = list(other)
        r = live[a["obj"]] | other
        return {"kv": r, "other_unchanged": list(other) == snap, "fresh": r is not live[a["obj"]], "operands": (other,)}

    def do_KvAnd(self, live, a):
        other = self.KnotVector(self.mode.nums(a["other"]))
        snap = list(other)
        r = live[a["obj"]] & other
        return {"kv": r, "other_unchanged": list(other) == snap, "fresh": r is not live[a["obj"]]}

    def do_KvValueOp(self, live, a):
        kv = live[a["obj"]]
        op = a["op"]
        x = self.mode.nums(a["nodes"]) if op in ("add_nodes", "sub_nodes") else self.mode.num(a["by"])
        r = {"add_nodes": lambda: kv + x, "sub_nodes": lambda: kv - x, "add": lambda: kv + x, "sub": lambda: kv - x,
             "mul": lambda: kv * x, "rmul": lambda: x * kv, "div": lambda: kv / x}[op]()
        return {"kv": r, "fresh": r is not kv}

    def cmp_KvValueOp(self, live, t, val):
        f = []
        if not isinstance(val["kv"], self.KnotVector):
            return [f"result is a {type(val['kv']).__name__}, not a KnotVector"]
        if not self._kv_equals(val["kv"], t["ret"]["val"]):
            f.append(f"result: got {list(val['kv'])}, spec {t['ret']['val']}")
        if not val["fresh"]:
            f.append("result aliases the receiver")
        return f

    def do_KvEq(self, live, a):
        kv = live[a["obj"]]
        seq = self.mode.nums(a["seq"])
        out = {"list": (kv == list(seq), kv != list(seq)), "tuple": (kv == tuple(seq), kv != tuple(seq))}
        try:
            other = self.KnotVector(seq)
        except Exception:
            other = None
        if other is not None:
            out["kv"] = (kv == other, kv != other)
            out["sym"] = (other == kv, other != kv)
        return out

    def cmp_KvEq(self, live, t, val):
        want = bool(t["ret"]["val"])
        f = []
        for form, (eq, ne) in val.items():
            if bool(eq) != want or bool(ne) == want:
                f.append(f"== / != against a {form}: got {eq!r} / {ne!r}, spec {want} / {not want}")
        return f

    def do_KvSplit(self, live, a):
        return {"pieces": live[a["obj"]].split(self.mode.nums(a["nodes"]))}

    def do_KvCopy(self, live, a):
        kv = live[a["obj"]]
        c1 = _copy.copy(kv)
        c2 = _copy.deepcopy(kv)
        return {"copies": [c1, c2]}

    # Curve / Function actions
    def do_CvEval(self, live, a):
        c = live[a["obj"]]
        nodes = self.mode.nums(a["nodes"])
        if a.get("scalar"):
            return {"vals": [c(nodes[0])], "scalar": True}
        form = a.get("form", "tuple")
        if form == "array":
            import numpy as np
            arg = np.array(list(nodes), dtype=object if self.mode.exact else float)
        elif form == "gen":
            arg = (x for x in list(nodes))
        else:
            arg = tuple(nodes) if form == "tuple" else list(nodes)
        r = c.eval(arg) if a.get("via") == "eval" else c(arg)
        return {"vals": r, "scalar": False}

    def do_FnBasis(self, live, a):
        kv = live[a["obj"]]
        f = self.Function(kv)
        if a["weights"]:
            f.weights = self.mode.wts(a["weights"])
        u = self.mode.num(a["u"])
        return {"f": f, "u": u}

    def do_CvKnotInsert(self, live, a):
        nodes = self.mode.nums(a["nodes"])
        form = a.get("form", "list")
        if form == "array":
            import numpy as np
            nodes = np.array(list(nodes), dtype=object if self.mode.exact else float)
        elif form == "gen":
            nodes = (x for x in list(nodes))
        elif form == "tuple":
            nodes = tuple(nodes)
        live[a["obj"]].knot_insert(nodes)

    def do_CvDegreeIncrease(self, live, a):
        c = live[a["obj"]]
        if a.get("form") == "setter":
            c.degree = c.degree + a["times"]
        else:
            c.degree_increase(a["times"])

    def do_CvSplit(self, live, a):
        c = live[a["obj"]]
        if a.get("form") == "noarg":
            return {"pieces": c.split()}
        return {"pieces": c.split(self.mode.nums(a["nodes"]))}

    def do_CvSplitJoin(self, live, a):
        c = live[a["obj"]]
        nodes = self.mode.nums(a["nodes"])
        if a.get("form") == "array":
            import numpy as np
            nodes = np.array(list(nodes), dtype=object if self.mode.exact else float)
        pieces = c.split(nodes)
        r = pieces[0]
        for p in pieces[1:]:
            r = r | p
        return {"curve": r, "pieces": pieces}

    def tol_arg(self, tol):
        if tol[0] == "default":
            return {}
        if tol[0] == "none":
            return {"tolerance": None}
        if tol[0] == "e":
            q = Fraction(1, 10 ** tol[1])
            return {"tolerance": q if self.mode.exact else float(q)}
        q = Fraction(tol[1], tol[2])
        return {"tolerance": q if self.mode.exact else float(q)}

    def curve_from(self, o):
        return self.build_obj(dict(o, kind="cv"))

    def do_CvSplitTake(self, live, a):
        pieces = live[a["obj"]].split(self.mode.nums(a["nodes"]))
        live[a["obj"]] = pieces[a["i"] - 1]
        live["b"] = pieces[a["i"]]

    def do_CvKnotRemove(self, live, a):
        live[a["obj"]].knot_remove(self.mode.nums(a["nodes"]), **self.tol_arg(a["tol"]))

    def do_CvDegreeDecrease(self, live, a):
        c = live[a["obj"]]
        if a.get("form") == "setter":
            c.degree = c.degree - a["times"]
        else:
            c.degree_decrease(a["times"], **self.tol_arg(a["tol"]))

    def do_CvClean(self, live, a):
        c = live[a["obj"]]
        {"knot": c.knot_clean, "degree": c.degree_clean, "all": c.clean}[a["which"]](**self.tol_arg(a.get("tol", ["default"])))

    def do_CvJoin(self, live, a):
        A = live[a["obj"]]
        B = self.curve_from(a["other"])
        snapB = self.project(B)
        r = A | B
        return {"curve": r, "other_unchanged": self.project(B) == snapB, "operands": (B,)}

    def do_CvArith(self, live, a):
        A = live[a["obj"]]
        B = self.curve_from(a["other"])
        snapB = self.project(B)
        op = a["op"]
        if op == "add":
            r = A + B
        elif op == "sub":
            r = A - B
        elif op == "mul":
            r = A * B
        elif op == "div":
            r = A / B
        else:
            raise core.MachineryError(f"unknown op {op}")
        out = {"curve": r, "other_unchanged": self.project(B) == snapB, "operands": (B,)}
        if self.mode.exact and self.mode.name == "fraction" and (A.weights is not None or B.weights is not None) \
                and (A.weights is None or B.weights is None or len(B.ctrlpoints) % 2 == 0 or op in ("add", "sub")):
            # a rational curve does not change when all its weights are multiplied by a constant: the same operation on
            # operands written with weights of size 1e-12 (two different factors) must give the same function
            def scaled(C, lam):
                return C if C.weights is None else self.Curve(C.knotvector, list(C.ctrlpoints), [lam * w for w in C.weights])
            A2, B2 = scaled(A, Fraction(1, 10 ** 12)), scaled(B, Fraction(3, 10 ** 12))
            try:
                out["scaled"] = {"add": lambda: A2 + B2, "sub": lambda: A2 - B2, "mul": lambda: A2 * B2, "div": lambda: A2 / B2}[op]()
            except Exception as e:
                out["scaled"] = e
        return out

    def do_CvScalar(self, live, a):
        A = live[a["obj"]]
        op = a["op"]
        s = None if op == "neg" else self.mode.num(a["s"])
        r = {"s+A": lambda: s + A, "A+s": lambda: A + s, "s-A": lambda: s - A, "A-s": lambda: A - s,
             "s*A": lambda: s * A, "A*s": lambda: A * s, "A/s": lambda: A / s, "s/A": lambda: s / A,
             "neg": lambda: -A}[op]()
        return {"curve": r}

    def do_CvEq(self, live, a):
        A = live[a["obj"]]
        if not a["other"]["U"]:
            others = [1, "curve", None, (0, 1), A.knotvector]
            return {"eq": [A == o for o in others], "ne": [A != o for o in others], "sym": []}
        B = self.curve_from(a["other"])
        snapB = self.project(B)
        out = {"eq": [A == B], "ne": [A != B], "sym": [B == A], "other_unchanged": self.project(B) == snapB}
        if self.mode.exact and self.mode.name == "fraction" and A.ctrlpoints is not None and B.ctrlpoints is not None \
                and (getattr(self, "all_variants", False) or (len(a["other"]["U"]) + len(a["other"]["P"]) + A.npts) % 2 == 0):
            # both curves translated by the same huge exact constant: the same answer (equality of functions is
            # translation invariant); differences far above 1e-9 must not drown in the magnitude of the points
            T = 10 ** 20 + Fraction(1, 3)
            A2 = self.Curve(A.knotvector, [p + T for p in A.ctrlpoints], A.weights)
            B2 = self.Curve(B.knotvector, [p + T for p in B.ctrlpoints], B.weights)
            out["eq"].append(A2 == B2)
            out["ne"].append(A2 != B2)
            out["sym"].append(B2 == A2)
            # the same question asked of 2-D curves: (A, A) against (B, B), and (5, A) against (5, B) whose first
            # coordinates always agree - equal exactly when A and B are
            import numpy as np
            for first in (None, Fraction(5)):
                X = self.Curve(A.knotvector, [np.array([p if first is None else first, p], dtype=object) for p in A.ctrlpoints], A.weights)
                Y = self.Curve(B.knotvector, [np.array([p if first is None else first, p], dtype=object) for p in B.ctrlpoints], B.weights)
                out["eq"].append(X == Y)
                out["ne"].append(X != Y)
                out["sym"].append(Y == X)
        return out

    def do_CvCopy(self, live, a):
        import copy
        c = live[a["obj"]]
        return {"copies": [copy.copy(c), copy.deepcopy(c)]}

    def do_CvFraction(self, live, a):
        return {"parts": live[a["obj"]].fraction()}

    def do_CvSetCtrlpoints(self, live, a):
        live[a["obj"]].ctrlpoints = self.mode.pts(a["points"])

    def do_CvSetWeights(self, live, a):
        live[a["obj"]].weights = self.mode.wts(a["weights"])

    def do_KvConvert(self, live, a):
        kv = live[a["obj"]]
        cls = {"int": int, "Fraction": Fraction, "float": float}[a["cls"]]
        r = kv.convert(cls)
        return {"same": r is kv, "types": {type(x).__name__ for x in kv}, "cls": a["cls"]}

    def cmp_KvConvert(self, live, t, val):
        f = []
        if not val["same"]:
            f.append("convert() did not return the same instance")
        if val["types"] - {val["cls"]}:
            f.append(f"convert({val['cls']}) left knots of type {sorted(val['types'])}")
        return f

    def do_CvApply(self, live, a):
        M = [[self.mode.num(x) for x in row] for row in a["matrix"]]
        live[a["obj"]].apply(self.KnotVector(self.mode.nums(a["kv"])), M)

    def do_CvSetKnotvector(self, live, a):
        live[a["obj"]].knotvector = self.mode.nums(a["kv"])

    # ---- module-level memo tables (C10) ----
    MEMO_ATTRS = {"nodes_cheby": ("NodeSample", "_NodeSample__cheby"), "nodes_gauss": ("NodeSample", "_NodeSample__gauss"),
                  "w_closed": ("IntegratorArray", "_IntegratorArray__closed_newton"),
                  "w_open": ("IntegratorArray", "_IntegratorArray__open_newton"),
                  "w_cheby": ("IntegratorArray", "_IntegratorArray__cheby"),
                  "w_gauss": ("IntegratorArray", "_IntegratorArray__gauss")}

    def memo_tables(self):
        """name -> the private dict, where still reachable (None after a refactoring)"""
        import compmec.nurbs.heavy as heavy
        out = {}
        for k, (cls, attr) in self.MEMO_ATTRS.items():
            d = getattr(getattr(heavy, cls, None), attr, None)
            out[k] = d if isinstance(d, dict) else None
        return out

    def enable_memo_reset(self):
        tabs = self.memo_tables()
        self._memo_init = {k: dict(v) for k, v in tabs.items() if v is not None} if all(
            v is not None for v in tabs.values()) else None
        self.reset_memo = True

    def reset_module_state(self):
        if not getattr(self, "reset_memo", False):
            return
        if self._memo_init is not None:
            tabs = self.memo_tables()
            for k, init in self._memo_init.items():
                tabs[k].clear()
                tabs[k].update(init)
        else:  # tables moved: fall back to re-executing the module
            import importlib
            import compmec.nurbs.heavy as heavy
            importlib.reload(heavy)

    def rule_fn(self, fn):
        import compmec.nurbs.heavy as heavy
        N, I = heavy.NodeSample, heavy.IntegratorArray
        return {"nodes_closed": N.closed_linspace, "nodes_open": N.open_linspace, "nodes_cheby": N.chebyshev,
                "nodes_gauss": N.gauss_legendre, "w_closed": I.closed_newton_cotes, "w_open": I.open_newton_cotes,
                "w_cheby": I.chebyshev, "w_gauss": I.gauss_legendre,
                "interp_closed": lambda n: I.bezier_integrator_array(N.closed_linspace(n)),
                "interp_open": lambda n: I.bezier_integrator_array(N.open_linspace(n)),
                "interp_closed_float": lambda n: I.bezier_integrator_array(N.closed_linspace(n, float)),
                "interp_open_float": lambda n: I.bezier_integrator_array(N.open_linspace(n, float))}[fn]

    def do_MemoRequest(self, live, a):
        return {"val": tuple(self.rule_fn(a["fn"])(a["n"]))}

    def do_KvGen(self, live, a):
        G = self.lib.GeneratorKnotVector
        cls = {"fraction": Fraction, "int": int, "float": float, "numpy.float64": float}[self.mode.name]
        k = a["kind"]
        if k == "bezier":
            kv = G.bezier(a["p"], cls)
        elif k == "integer":
            kv = G.integer(a["p"], a["n"], cls)
        elif k == "uniform":
            kv = G.uniform(a["p"], a["n"], cls)
        else:
            kv = G.weight(a["p"], self.mode.nums(a["w"]))
        live[a["obj"]] = kv

    def do_CvDerivate(self, live, a):
        from compmec.nurbs.calculus import Derivate
        c = live[a["obj"]]
        forms = {"Derivate.curve": Derivate.curve(c)}   # the named entry points behind Derivate(c)
        if c.degree >= 1:
            shape = "bezier" if c.degree + 1 == c.npts else "spline"
            forms["Derivate." + shape] = getattr(Derivate, shape)(c)
            name = ("nonrational_" if c.weights is None else "rational_") + shape
            forms["Derivate." + name] = getattr(Derivate, name)(c)
        return {"D": Derivate(c), "forms": forms}

    def do_CvIntegrate(self, live, a):
        from compmec.nurbs.calculus import Integrate
        kw = {}
        if a.get("method", "default") != "default":
            kw["method"] = a["method"]
        if a.get("nnodes", 0):
            kw["nnodes"] = a["nnodes"]
        return {"I": Integrate.scalar(live[a["obj"]], **kw)}

    def do_IntegrateFn(self, live, a):
        from compmec.nurbs.calculus import Integrate
        kv = live[a["obj"]].knotvector
        k = a["k"]
        f = lambda u: u ** k
        if a["method"] == "default":
            return {"I": Integrate.function(kv, f)}
        return {"I": Integrate.function(kv, f, a["method"], a["nnodes"])}

    def do_GeoLength(self, live, a):
        from compmec.nurbs.calculus import Integrate
        C = self.polyline(a["curve"])
        k = a.get("k", 0)
        if k == 0 and a.get("method", "default") == "default" and not a.get("nnodes"):
            return {"L": Integrate.lenght(C)}
        g = (lambda u: u ** k) if k else None
        method = None if a["method"] == "default" else a["method"]
        return {"L": Integrate.lenght(C, g, method, a["nnodes"] or None)}

    def do_CvFitCurve(self, live, a):
        S = live[a["obj"]]
        C = self.curve_from(a["other"])
        snap = self.project(C)
        nodes = self.mode.nums(a["nodes"]) if a["nodes"] else None
        import copy
        S2 = copy.deepcopy(S)
        err = S.fit_curve(C, nodes) if nodes is not None else S.fit_curve(C)
        out = {"err": err, "other_unchanged": self.project(C) == snap}
        if self.mode.exact and self.mode.name == "fraction" and nodes is None and C.weights is None and S.weights is None \
                and (len(a["other"]["P"]) + len(a["other"]["U"])) % 4 == 0:
            # the projection depends on the FUNCTION, not on how the source is stored: the same source written with
            # degree 7 (exactly elevated; elevation is C06's business) must give the same control points and error
            try:
                C7 = _copy.deepcopy(C)
                C7.degree_increase(max(1, 7 - C7.degree))
                S7 = _copy.deepcopy(S)
                S7.ctrlpoints = None
                err7 = S7.fit_curve(C7)
                if self.project(S7) != self.project(S) or err7 != err:
                    out["elevated_source"] = (f"source stored with degree {C7.degree}: control points "
                                              f"{[str(x) for x in S7.ctrlpoints]}, error {err7}; stored with degree {C.degree}: "
                                              f"{[str(x) for x in S.ctrlpoints]}, error {err}")
            except Exception as e:
                out["elevated_source"] = f"fit_curve of the degree-elevated source raised {type(e).__name__}: {e}"
        try:   # the dispatching form fit(x): a Curve argument means fit_curve
            err2 = S2.fit(C, nodes) if nodes is not None else S2.fit(C)
            out["fit_form"] = None if (self.project(S2) == self.project(S) and err2 == err) else \
                f"fit(curve) gives {self.project(S2)} / {err2}, fit_curve gives {self.project(S)} / {err}"
        except Exception as e:
            out["fit_form"] = f"fit(curve) raised {type(e).__name__}: {e}"
        return out

    def do_CvFitInRational(self, live, a):
        S = live[a["obj"]]
        C = self.curve_from(a["other"])
        return {"err": S.fit_curve(C), "W_before": self.project(S)["W"]}

    def do_CvFitPoints(self, live, a):
        S = live[a["obj"]]
        data = self.mode.pts(a["data"])
        import copy
        S2 = copy.deepcopy(S)
        if a["dflt"]:
            S.fit_points(data)
            S2.fit(list(data))
        else:
            S.fit_points(data, self.mode.nums(a["nodes"]))
            S2.fit(list(data), self.mode.nums(a["nodes"]))
        if self.project(S2) != self.project(S):   # the dispatching form fit(x): a sequence means fit_points
            return {"fit_form": f"fit(points) gives {self.project(S2)}, fit_points gives {self.project(S)}"}

    def do_CvFitFunction(self, live, a):
        S = live[a["obj"]]
        src = self.curve_from(a["src"])
        import copy
        S2 = copy.deepcopy(S)
        S.fit_function(lambda u: src(u))
        S2.fit(lambda u: src(u))
        if self.project(S2) != self.project(S):   # the dispatching form fit(x): a callable means fit_function
            return {"fit_form": f"fit(function) gives {self.project(S2)}, fit_function gives {self.project(S)}"}

    def polyline(self, c, elev=0):
        import numpy as np
        U = [float(fr(x)) for x in c["U"]]
        pts = [np.array([float(fr(x)), float(fr(y))]) for x, y in zip(c["X"], c["Y"])]
        curve = self.Curve(U, pts)
        if elev:  # the same polyline stored with a higher degree (a reducible representation)
            curve.degree_increase(elev)
        return curve

    def do_GeoProject(self, live, a):
        import numpy as np
        from compmec.nurbs.advanced import Projection
        C = self.polyline(a["curve"], a.get("elev", 0))
        snap = (tuple(C.knotvector), [tuple(p) for p in C.ctrlpoints])
        P = (float(fr(a["px"])), float(fr(a["py"])))
        r = with_timeout(lambda: Projection.point_on_curve(P, C), 20)
        return {"params": r, "C": C, "P": P,
                "unchanged": snap == (tuple(C.knotvector), [tuple(p) for p in C.ctrlpoints])}

    def planar(self, c):
        import numpy as np
        U = [float(fr(x)) for x in c["U"]]
        pts = [np.array([float(fr(x)), float(fr(y))]) for x, y in zip(c["X"], c["Y"])]
        curve = self.Curve(U, pts)
        if c["W"]:
            curve.weights = [float(fr(w)) for w in c["W"]]
        return curve

    def do_GeoProjectOn(self, live, a):
        from compmec.nurbs.advanced import Projection
        C = self.planar(a["curve"])
        u0 = float(fr(a["u0"]))
        P = C(u0)
        snap = (tuple(C.knotvector), [tuple(p) for p in C.ctrlpoints], C.weights)
        r = with_timeout(lambda: Projection.point_on_curve(tuple(P), C), 30)
        return {"params": r, "C": C, "P": P, "u0": u0,
                "unchanged": snap == (tuple(C.knotvector), [tuple(p) for p in C.ctrlpoints], C.weights)}

    def do_GeoIntersectCurved(self, live, a):
        from compmec.nurbs.advanced import Intersection
        A, B = self.planar(a["A"]), self.planar(a["B"])
        snap = lambda c: (tuple(c.knotvector), [tuple(p) for p in c.ctrlpoints], c.weights)
        sa, sb = snap(A), snap(B)
        r = with_timeout(lambda: Intersection.curve_and_curve(A, B), 60)
        return {"pairs": r, "A": A, "B": B, "unchanged": sa == snap(A) and sb == snap(B)}

    def do_GeoIntersect(self, live, a):
        from compmec.nurbs.advanced import Intersection
        A, B = self.polyline(a["A"], a.get("elev", 0)), self.polyline(a["B"])
        snap = lambda c: (tuple(c.knotvector), [tuple(p) for p in c.ctrlpoints])
        sa, sb = snap(A), snap(B)
        r = with_timeout(lambda: Intersection.curve_and_curve(A, B), 30)
        return {"pairs": r, "A": A, "B": B, "unchanged": sa == snap(A) and sb == snap(B)}

    # ---------------------------------------------------------------- comparison
    def compare(self, live, t, cls, val, exc):
        """returns list of failure descriptions (empty = conforms)"""
        fails = []
        act, ret = t["act"], t["ret"]
        if not class_matches(ret["class"], cls):
            fails.append(f"outcome: spec {ret['class']}, code {cls}" + (f" ({type(exc).__name__}: {exc})" if exc else ""))
        sem = ret.get("rel") == "sem"
        target = act.get("obj")
        # whole abstract state after the step (on refusal the spec's post-state is the pre-state)
        for name, want in t["post"].items():
            if sem and name == target and act["name"] in MUTATING_SEM:
                if cls != "ok":  # a refusal must leave the object exactly as it was
                    try:
                        if not self.same_obj(self.project(live.get(name)), t["pre"][name]):
                            fails.append(f"state[{name}] after a refused call differs from the state before")
                    except TypeError as e:
                        fails.append(f"state[{name}]: inexact number in exact mode: {e}")
                continue  # judged by Trace.tla from the emitted event
            try:
                got = self.project(live.get(name))
            except TypeError as e:
                fails.append(f"state[{name}]: inexact number in exact mode: {e}")
                continue
            if not self.same_obj(got, want):
                what = "after a refused call" if cls != "ok" else "after the call"
                fails.append(f"state[{name}] {what}: got {got}, spec {want}")
        if cls == "ok" and ret["class"] in ("ok", "any"):
            h = getattr(self, "cmp_" + act["name"], None)
            if h is not None:
                try:
                    fails += h(live, t, val) or []
                except core.MachineryError:
                    raise
                except Exception as e:
                    # the follow-up calls of a comparison (other indexing forms, alias entry points ...) are calls of the
                    # library on valid input: an exception raised INSIDE the library is a failure of the code, not of the harness
                    import traceback
                    frames = traceback.extract_tb(e.__traceback__)
                    if not any("/compmec/nurbs/" in fr_.filename for fr_ in frames):
                        raise
                    where = next(fr_ for fr_ in reversed(frames) if "/compmec/nurbs/" in fr_.filename)
                    fails.append(f"{act['name']}: a follow-up call raised {type(e).__name__}: {e} "
                                 f"(in {where.filename.split('/compmec/nurbs/')[-1]}:{where.name})")
        if sem and self.validator is not None and not any(f.startswith("state[") for f in fails):
            self.emit(t, live, cls, val, fails)
        elif sem and self.validator is None and self.mode.exact and cls == "ok":
            # no clause judgement in this run, but exact data must still give exact numbers
            try:
                if act["name"] in MUTATING_SEM:
                    self.project(live[act["obj"]])
                elif isinstance(val, dict) and val.get("curve") is not None:
                    self.project(val["curve"])
            except TypeError as e:
                fails.append(f"result: inexact number from exact data: {e}")
        # observations (queries) on every object of the post state
        if not fails:
            for name, obs in t.get("obs", {}).items():
                fails += self.check_obs(live.get(name), obs, t["post"][name])
        if not fails and cls == "ok" and isinstance(val, dict):
            fails += self.check_independent(live, act, val)
        return fails

    # actions of Nurbs.tla whose result is a NEW value of the heap-less return (the spec leaves every heap object as is)
    FRESH_RESULT = {"KvOr", "KvAnd", "KvSplit", "KvCopy", "CvSplit", "CvJoin", "CvArith", "CvScalar", "CvFraction",
                    "CvDerivate", "CvCopy"}

    def _returned(self, x, out):
        if isinstance(x, (self.Curve, self.KnotVector)):
            out.append(x)
        elif isinstance(x, dict):
            for y in x.values():
                self._returned(y, out)
        elif isinstance(x, (list, tuple)):
            for y in x:
                self._returned(y, out)

    def check_independent(self, live, act, val):
        """In the spec a returned curve / knot vector is a VALUE: whatever is later done to it is no action on the heap.
        Here every returned object is mutated and every heap object must stay exactly what it was."""
        objs = []
        operands = tuple(val.get("operands", ()))
        self._returned({k: v for k, v in val.items() if k != "operands"}, objs)
        if not objs:
            return []
        fails = []
        heapobjs = {n: o for n, o in live.items() if isinstance(o, (self.Curve, self.KnotVector))}
        for i, o in enumerate(operands):     # right-hand operands built for this call count as heap objects here
            heapobjs[f"right operand {i + 1}"] = o
        try:
            snaps = {n: self.project(o) for n, o in heapobjs.items()}
        except TypeError:
            return []
        for r in objs:
            if any(r is o for o in heapobjs.values()):
                if act["name"] in self.FRESH_RESULT:
                    fails.append(f"{act['name']} returned one of its operands itself instead of a new object: "
                                 "changing the result changes the operand")
                continue
            if isinstance(r, self.Curve) and r.ctrlpoints is not None:
                # points that are mutable objects (numpy arrays): changed IN PLACE, as a user or the library's own
                # rational code path (p *= w) would - a result that shares its point objects with an operand shows here
                for p in r.ctrlpoints:
                    if hasattr(p, "shape") and getattr(p, "ndim", 0) >= 1:
                        try:
                            p *= 3
                        except Exception:
                            pass
            # (cheap, state-sharing-revealing changes only: the knot vector object is moved in place, then the curve is
            # given other points; an elevation here would cost more than the transition itself)
            for mutate in ((lambda: r.knotvector.shift(1)) if isinstance(r, self.Curve) else (lambda: r.shift(1)),
                           (lambda: setattr(r, "ctrlpoints", [2 * p + 1 for p in r.ctrlpoints])) if isinstance(r, self.Curve)
                           else (lambda: r.scale(2)),
                           (lambda: r.knotvector.scale(2)) if isinstance(r, self.Curve) else (lambda: r.normalize())):
                try:
                    mutate()
                except Exception:
                    pass  # whether the result can be mutated this way is not the point
        for n, o in heapobjs.items():
            try:
                if self.project(o) != snaps[n]:
                    fails.append(f"changing the object returned by {act['name']} changed heap object {n} "
                                 f"(from {snaps[n]} to {self.project(o)}): results share state with operands")
            except TypeError:
                pass
        return fails

    @staticmethod
    def _deg(U):
        k = 0
        while k + 1 < len(U) and U[k + 1] == U[0]:
            k += 1
        return k

    @staticmethod
    def _sample_pts(Us, deg):
        """SamplePts of Spline.tla: all breaks + deg+1 equispaced interior points of every span"""
        ks = sorted({fr(x) for U in Us for x in U})
        pts = set(ks)
        for a, b in zip(ks[:-1], ks[1:]):
            for k in range(1, deg + 2):
                pts.add(a + (b - a) * Fraction(k, deg + 2))
        return sorted(pts)

    def observed_values(self, name, c, b, d, curve):
        """values the implementation returns for the result curve on the sample set the clauses use"""
        if d is None or curve is None:
            return []
        dc, dd = self._deg(c["U"]), self._deg(d["U"])
        if name == "CvScalar":
            Us, deg = [c["U"], d["U"]], 2 * dc + dd
        elif name in ("CvJoin", "CvArith"):
            Us, deg = [c["U"], b["U"], d["U"]], dc + self._deg(b["U"]) + dd
        else:
            Us, deg = [c["U"], d["U"]], dc + dd
        lo, hi = fr(d["U"][0]), fr(d["U"][-1])
        out = []
        for u in self._sample_pts(Us, deg):
            v = NAN
            if lo <= u <= hi:
                try:
                    r = rat(curve(self.mode.num(rat(u))))
                    if core.fits32(r):
                        v = r
                except Exception:
                    v = NAN
            out.append([rat(u), v])
        return out

    def emit(self, t, live, cls, val, fails):
        """send the observed outcome of a relationally specified action to Trace.tla"""
        a = t["act"]
        name = a["name"]
        c = strip_curve(t["pre"][a["obj"]])
        b = strip_curve(a["other"]) if isinstance(a.get("other"), dict) else None
        d = None
        curve = None
        try:
            if name in MUTATING_SEM:
                curve = live[a["obj"]]
                d = strip_curve(self.project(curve))
            elif cls == "ok":
                curve = val["curve"]
                d = strip_curve(self.project(curve))
        except TypeError as e:
            fails.append(f"result: inexact number from exact data: {e}")
            return
        except Exception as e:
            fails.append(f"result: cannot be read back: {type(e).__name__}: {e}")
            return
        if d is not None and d["P"] is None:
            fails.append("result: curve without control points")
            return
        act = {k: v for k, v in a.items() if k not in ("obj", "other", "form")}
        if name == "CvFitCurve":
            if cls != "ok":
                fails.append("fit_curve raised")
                return
            if (b and b["W"]) or t["pre"][a["obj"]]["W"]:
                return      # the L2 clauses are stated for polynomial spline spaces; rational sources are only executed
            try:
                err = rat(val["err"]) if not isinstance(val["err"], float) else rat(Fraction(val["err"]))
            except TypeError:
                err = rat(Fraction(float(val["err"])))
            act = {"name": name, "kv": t["pre"][a["obj"]]["U"], "nodes": a["nodes"], "err": err}
            eqs = t["ret"].get("val")
            if isinstance(eqs, dict) and eqs.get("closed_form") and d is not None:
                # Bezier source and target of high degree: closed-form Bernstein integrals from the specification, the
                # (large) observed numbers are combined here
                try:
                    D = [fr(x) for x in d["P"]]
                    P = [fr(x) for x in a["other"]["P"]]
                    G, X, SS = eqs["gram"], eqs["cross"], eqs["self"]
                    if any(list(x) == NAN for tab in (G, X, SS) for row in tab for x in row):
                        return
                    rhs = [sum(P[k] * fr(X[k][i]) for k in range(len(P))) for i in range(len(D))]
                    res = [sum(fr(G[j][i]) * D[j] for j in range(len(D))) - rhs[i] for i in range(len(D))]
                    if any(r != 0 for r in res):
                        fails.append("residual_orthogonal: the fitted control points do not satisfy the normal equations built from the "
                                     f"closed-form Bernstein integrals (degree {len(P) - 1} -> {len(D) - 1}; largest defect "
                                     f"{float(max(abs(r) for r in res)):.3e})")
                    cc = sum(P[k] * P[l] * fr(SS[k][l]) for k in range(len(P)) for l in range(len(P)))
                    l2 = cc - 2 * sum(D[i] * rhs[i] for i in range(len(D))) + sum(
                        D[i] * fr(G[i][j]) * D[j] for i in range(len(D)) for j in range(len(D)))
                    E = fr(err)
                    if E < 0 or (E != l2 and 2 * E != l2):
                        fails.append(f"err_is_multiple_of_L2: returned error {float(E):.6e}, exact integral of the squared residual "
                                     f"{float(l2):.6e} (degree {len(P) - 1} -> {len(D) - 1})")
                except (KeyError, IndexError, TypeError) as e:
                    raise core.MachineryError(f"closed-form tables of the model cannot be read: {e}")
                return
            if isinstance(eqs, dict) and d is not None and not all(core.fits32(x) for x in d["P"]):
                # too large for TLC: the observed points are plugged into the specification's normal equations here
                try:
                    D = [fr(x) for x in d["P"]]
                    gram, rhs = eqs["gram"], eqs["rhs"]
                    if not any(list(x) == NAN for row in gram for x in row) and not any(list(x) == NAN for x in rhs):
                        res = [sum(fr(gram[j][i]) * D[j] for j in range(len(D))) - fr(rhs[i]) for i in range(len(rhs))]
                        if any(r != 0 for r in res):
                            fails.append("residual_orthogonal: the fitted control points do not satisfy the normal equations "
                                         f"G Q = b of the specification (G Q - b = {[str(r) for r in res]})")
                except (KeyError, IndexError, TypeError) as e:
                    raise core.MachineryError(f"normal equations of the model cannot be read: {e}")
            c = b
            b = None
        if name == "CvFitInRational":
            if cls != "ok":
                fails.append("fit_curve into a rational receiver raised")
                return
            try:
                if rat(val["err"]) != [0, 1]:
                    fails.append(f"source lies in the receiver's rational space but the returned error is {val['err']}")
            except TypeError:
                fails.append(f"error {val['err']!r} is not exact")
            if d["W"] != val["W_before"]:
                fails.append("the receiver's weights were changed by fit_curve of a polynomial source")
            src = strip_curve(a["other"])
            dv = self.observed_values("CvClean", src, {"U": [], "P": [], "W": []}, d, curve)
            self.validator.add({"name": "SameFunction", "op": "fit_curve into rational space"}, c=src,
                               d={"U": d["U"], "P": [x if core.fits32(x) else NAN for x in d["P"]],
                                  "W": [x if core.fits32(x) else NAN for x in d["W"]]}, dv=dv, tag=t)
            return
        if name == "CvSplitJoin":
            if cls != "ok":
                fails.append("split / join of the pieces raised")
                return
            if len(val["pieces"]) != t["ret"]["val"]:
                fails.append(f"{len(val['pieces'])} pieces, spec {t['ret']['val']}")
            dv = self.observed_values("CvClean", c, {"U": [], "P": [], "W": []}, d, curve)
            self.validator.add({"name": "SameFunction", "op": "split and join all pieces"}, c=c,
                               d={"U": d["U"], "P": [x if core.fits32(x) else NAN for x in d["P"]],
                                  "W": [x if core.fits32(x) else NAN for x in d["W"]]}, dv=dv, tag=t)
            return
        if name == "CvFitPoints":
            if cls != "ok":
                return
            pre = t["pre"][a["obj"]]
            act = {"name": name, "kv": pre["U"], "weights": pre["W"], "nodes": a["nodes"], "data": a["data"]}
        if name == "CvArith" and cls == "ok" and isinstance(val, dict) and "scaled" in val:
            r2 = val["scaled"]
            if isinstance(r2, Exception):
                fails.append(f"the same operation with all weights of the operands scaled by 1e-12 raised {type(r2).__name__}: {r2}")
            else:
                U2 = [rat(x) for x in r2.knotvector]
                d2 = {"U": U2, "P": [NAN] * r2.npts, "W": []}       # markers: the values travel in dv
                dv2 = self.observed_values(name, c, b, d2, r2)
                self.validator.add(dict(act, scaled_weights=True), c=c, b=b, d=d2, cls=cls, tag=t, dv=dv2)
        dv = []
        if name not in ("CvFitCurve", "CvFitPoints") and cls == "ok":
            dv = self.observed_values(name, c, b or {"U": [], "P": [], "W": []}, d, curve)
        if d is not None:  # numbers outside TLC's range: kept only as markers (the values travel in dv)
            d = {"U": d["U"], "P": [x if core.fits32(x) else NAN for x in d["P"]],
                 "W": [x if core.fits32(x) else NAN for x in d["W"]]}
        self.validator.add(act, c=c, b=b, d=d, cls=cls, tag=t, dv=dv)

    def cmp_CvJoin(self, live, t, val):
        f = []
        if not val["other_unchanged"]:
            f.append("right operand modified")
        if t["ret"].get("rel") == "exact":
            try:
                got = self.project(val["curve"])
            except TypeError as e:
                return f + [f"result: inexact number: {e}"]
            if not self.same_obj(got, dict(t["ret"]["val"], kind="cv")):
                f.append(f"result: got {got}, spec {t['ret']['val']}")
        elif t["ret"].get("class") == "ok" and val.get("curve") is not None and self.mode.name == "fraction":
            # rational operand(s), exact data only: the values are judged pointwise elsewhere; what the spec still fixes is the junction knot.
            # Clamped ends interpolate, so if A's last point is B's first the joined curve is continuous there and needs
            # at most multiplicity max(p, q) ("each junction knot keeps only the multiplicity the curve actually needs").
            try:
                A, B = t["pre"][t["act"]["obj"]], t["act"]["other"]
                if A["P"] and B["P"] and A["P"][-1] == B["P"][0]:
                    x = Fraction(A["U"][-1][0], A["U"][-1][1])
                    deg = max(self._deg(A["U"]), self._deg(B["U"]))
                    m = sum(1 for k in val["curve"].knotvector if k == x)
                    if m > max(deg, 1):
                        f.append(f"junction: continuous join keeps multiplicity {m} > degree {deg} at {x}")
            except (KeyError, IndexError, TypeError, ZeroDivisionError):
                pass
        return f

    def cmp_CvArith(self, live, t, val):
        return [] if val["other_unchanged"] else ["right operand modified"]

    def cmp_CvEq(self, live, t, val):
        f = []
        want = t["ret"]["val"]
        for e in val["eq"]:
            if bool(e) != want:
                f.append(f"A == B: got {e}, spec {want}")
        for e in val["ne"]:
            if bool(e) != (not want):
                f.append(f"A != B: got {e}, spec {not want}")
        for e in val["sym"]:
            if bool(e) != want:
                f.append(f"B == A: got {e}, spec {want} (symmetry)")
        if val.get("other_unchanged") is False:
            f.append("right operand modified")
        return f

    def cmp_CvCopy(self, live, t, val):
        f = []
        c = live[t["act"]["obj"]]
        want = t["ret"]["val"]
        for cp in val["copies"]:
            if cp is c:
                f.append("copy is the same object")
                continue
            if not self.same_obj(self.project(cp), want):
                f.append("copy differs from the original")
                continue
            try:
                cp.degree_increase(1)
                cp.ctrlpoints = [2 * p + 1 for p in cp.ctrlpoints]
                cp.knotvector.shift(1)
            except Exception as e:
                f.append(f"mutating the copy raised {type(e).__name__}: {e}")
            if not self.same_obj(self.project(c), want):
                f.append("mutating the copy changed the original")
        return f

    def cmp_CvFraction(self, live, t, val):
        want = t["ret"]["val"]
        num, den = val["parts"]
        f = []
        if not self.same_obj(self.project(num), dict(want[0], kind="cv")):
            f.append(f"numerator: got {self.project(num)}, spec {want[0]}")
        if len(want) == 1:
            if den != 1:
                f.append(f"denominator of a polynomial curve: got {den!r}, spec 1")
        elif not self.same_obj(self.project(den), dict(want[1], kind="cv")):
            f.append(f"denominator: got {self.project(den)}, spec {want[1]}")
        return f

    def cmp_MemoRequest(self, live, t, val):
        f = []
        a = t["act"]
        got = val["val"]
        want = t["ret"]["val"]
        if want and a["fn"].endswith("_float"):
            if len(got) != len(want) or any(not close(g, fr(w)) for g, w in zip(got, want)):
                f.append(f"{a['fn']}({a['n']}): got {got}, spec {[str(fr(w)) for w in want]} (to rounding)")
        elif want:  # rational family: the rule itself is specified
            try:
                g = [rat(x) for x in got]
            except TypeError:
                return [f"{a['fn']}({a['n']}): inexact numbers {got}"]
            if g != [list(w) for w in want]:
                f.append(f"{a['fn']}({a['n']}): got {got}, spec {[str(fr(w)) for w in want]}")
        canon = self.canon_rule(a["fn"], a["n"])
        if tuple(got) != tuple(canon):
            f.append(f"{a['fn']}({a['n']}) depends on the call history: got {got}, first-call value {canon}")
        tabs = self.memo_tables()
        if t.get("mpost") and all(v is not None for v in tabs.values()):
            for k, keys in t["mpost"].items():
                if sorted(tabs[k].keys()) != sorted(keys):
                    f.append(f"memo table {k}: keys {sorted(tabs[k].keys())}, spec {sorted(keys)}")
        return f

    def canon_rule(self, fn, n):
        """value of the rule on a pristine module state (computed once per key, then the state is restored)"""
        cache = self.__dict__.setdefault("_canon", {})
        if (fn, n) not in cache:
            tabs = self.memo_tables()
            saved = {k: dict(v) for k, v in tabs.items() if v is not None}
            self.reset_module_state()
            cache[(fn, n)] = tuple(self.rule_fn(fn)(n))
            for k, v in saved.items():
                tabs[k].clear()
                tabs[k].update(v)
        return cache[(fn, n)]

    def cmp_KvGen(self, live, t, val):
        f = []
        kv = live[t["act"]["obj"]]
        a = t["act"]
        if a["kind"] in ("bezier", "uniform"):
            lo, hi = kv.limits
            if not (lo == 0 and hi == 1):
                f.append(f"limits of {a['kind']} are {kv.limits}, not exactly (0, 1)")
        if self.mode.name == "fraction":
            bad = [x for x in kv if not isinstance(x, (int, Fraction)) or isinstance(x, bool)]
            if bad or (a["kind"] != "weight" and not all(isinstance(x, Fraction) for x in kv)):
                f.append(f"cls=Fraction produced {sorted({type(x).__name__ for x in kv})} knots")
        return f

    def cmp_CvDerivate(self, live, t, val):
        f = []
        D = val["D"]
        c = live[t["act"]["obj"]]
        if tuple(float(x) for x in D.knotvector.limits) != tuple(float(x) for x in c.knotvector.limits):
            f.append(f"interval of the derivative {D.knotvector.limits} differs from {c.knotvector.limits}")
        for u, want in t["ret"]["val"]:
            uu = self.mode.num(u)
            try:
                got = D(uu)
            except Exception as e:
                f.append(f"D({uu}) raised {type(e).__name__}: {e}")
                break
            w = float(fr(want))
            if not abs(float(got) - w) <= 1e-9 * max(1.0, abs(w)):
                f.append(f"D({uu}): got {float(got)!r}, spec {w!r}")
        if not f:
            def loose(x):   # (exactness of derivatives is no listed property: compared as floats)
                return ([float(v) for v in x.knotvector], [float(v) for v in x.ctrlpoints],
                        None if x.weights is None else [float(v) for v in x.weights])
            ref = loose(D)
            for name, other in val.get("forms", {}).items():
                got = loose(other)
                same = got[0] == ref[0] and (got[2] is None) == (ref[2] is None) and len(got[1]) == len(ref[1]) and all(
                    close(x, y) for x, y in zip(got[1] + (got[2] or []), ref[1] + (ref[2] or [])))
                if not same:
                    f.append(f"{name}(c) differs from Derivate(c): {got} vs {ref}")
        return f

    def cmp_CvIntegrate(self, live, t, val):
        a = t["act"]
        want = t["ret"]["val"]
        if a.get("method", "default") in ("default", "closed-newton-cotes", "open-newton-cotes") and self.mode.exact:
            ok, msg = self._point_ok(val["I"], want)      # rational rules on rational data: exact
        else:
            ok, msg = close(val["I"], fr(want)), f"got {val['I']!r}, spec {float(fr(want))!r}"
        return [] if ok else [f"integral ({a.get('method', 'default')}, nnodes {a.get('nnodes', 0) or 'default'}): {msg}"]

    def cmp_IntegrateFn(self, live, t, val):
        a = t["act"]
        want = t["ret"]["val"]
        if a["method"] in ("closed-newton-cotes", "open-newton-cotes", "default") and self.mode.exact:
            ok, msg = self._point_ok(val["I"], want)
        else:
            ok, msg = close(val["I"], fr(want)), f"got {val['I']!r}, spec {float(fr(want))!r}"
        return [] if ok else [f"integral of u^{a['k']} with {a['method']}/{a['nnodes']}: {msg}"]

    def cmp_GeoLength(self, live, t, val):
        a = t["act"]
        want = sum(float(fr(d2)) ** 0.5 * float(fr(m)) for d2, m in t["ret"]["val"])
        return [] if close(val["L"], want) else [
            f"integral of u^{a.get('k', 0)} ds ({a.get('method')}, nnodes {a.get('nnodes') or 'default'}): got {val['L']!r}, spec {want!r}"]

    def cmp_CvFitPoints(self, live, t, val):
        return [val["fit_form"]] if isinstance(val, dict) and val.get("fit_form") else []

    cmp_CvFitFunction = cmp_CvFitPoints

    def cmp_CvFitCurve(self, live, t, val):
        return ([] if val["other_unchanged"] else ["source curve modified"]) + ([val["fit_form"]] if val.get("fit_form") else []) \
            + ([val["elevated_source"]] if val.get("elevated_source") else [])

    def cmp_GeoProject(self, live, t, val):
        import numpy as np
        f = []
        r, C, P = val["params"], val["C"], np.array(val["P"])
        want = t["ret"]["val"]
        lo, hi = (float(x) for x in C.knotvector.limits)
        if not isinstance(r, tuple) or len(r) == 0:
            return [f"result {r!r} is not a non-empty tuple"]
        r = [float(x) for x in r]
        if any(not (lo - 1e-12 <= x <= hi + 1e-12) for x in r):
            f.append(f"parameter outside [{lo}, {hi}]: {r}")
        if r != sorted(r):
            f.append(f"parameters not sorted: {r}")
        ds = [float(np.linalg.norm(C(x) - P)) for x in r]
        dmin = float(fr(want["d2"])) ** 0.5
        if max(ds) - min(ds) > 1e-6:
            f.append(f"returned parameters are not equidistant: {ds}")
        if abs(min(ds) - dmin) > 1e-6:
            f.append(f"distance {min(ds)!r} is not the minimum {dmin!r}")
        ws = [float(fr(x)) for x in want["us"]]
        for w in ws:
            if not any(abs(w - x) <= 1e-6 for x in r):
                f.append(f"nearest parameter {w} missing from {r}")
        for x in r:
            if not any(abs(w - x) <= 1e-6 for w in ws):
                f.append(f"returned parameter {x} is not a nearest-point parameter {ws}")
        if not val["unchanged"]:
            f.append("curve modified")
        return f

    def cmp_GeoProjectOn(self, live, t, val):
        import numpy as np
        from compmec.nurbs.calculus import Derivate
        f = []
        r, C, P, u0 = val["params"], val["C"], np.array(val["P"]), val["u0"]
        want = t["ret"]["val"]
        if abs(float(P[0]) - float(fr(want["px"]))) > 1e-9 or abs(float(P[1]) - float(fr(want["py"]))) > 1e-9:
            f.append(f"C({u0}) = {P}, spec ({float(fr(want['px']))}, {float(fr(want['py']))})")
        lo, hi = (float(x) for x in C.knotvector.limits)
        if not isinstance(r, tuple) or len(r) == 0:
            return f + [f"result {r!r} is not a non-empty tuple"]
        r = [float(x) for x in r]
        if any(not (lo - 1e-12 <= x <= hi + 1e-12) for x in r):
            f.append(f"parameter outside [{lo}, {hi}]: {r}")
        if r != sorted(r):
            f.append(f"parameters not sorted: {r}")
        ds = [float(np.linalg.norm(C(x) - P)) for x in r]
        if min(ds) > 1e-6:
            f.append(f"a point on the curve (u0 = {u0}) is not projected onto itself: distances {ds}")
        if max(ds) - min(ds) > 1e-6:
            f.append(f"returned parameters are not equidistant: {ds}")
        if not val["unchanged"]:
            f.append("curve modified")
        return f

    def cmp_GeoIntersectCurved(self, live, t, val):
        import numpy as np
        f = []
        pairs, A, B = val["pairs"], val["A"], val["B"]
        if not val["unchanged"]:
            f.append("operand modified")
        pairs = [(float(a), float(b)) for a, b in pairs]
        la, ha = (float(x) for x in A.knotvector.limits)
        lb, hb = (float(x) for x in B.knotvector.limits)
        for (a, b) in pairs:
            if not (la <= a <= ha and lb <= b <= hb):
                f.append(f"pair {(a, b)} outside the parameter intervals")
            elif float(np.linalg.norm(A(a) - B(b))) > 1e-6:
                f.append(f"pair {(a, b)}: curves do not meet there (distance {float(np.linalg.norm(A(a) - B(b)))!r})")
        for i, p in enumerate(pairs):
            for q in pairs[:i]:
                if abs(p[0] - q[0]) < 1e-9 and abs(p[1] - q[1]) < 1e-9:
                    f.append(f"duplicate pair {p}")
        if t["ret"]["val"]["disjoint"] and pairs:
            f.append(f"bounding boxes are disjoint but {pairs} returned")
        return f

    def cmp_GeoIntersect(self, live, t, val):
        import numpy as np
        f = []
        want = t["ret"]["val"]
        pairs, A, B = val["pairs"], val["A"], val["B"]
        if not val["unchanged"]:
            f.append("operand modified")
        pairs = [(float(a), float(b)) for a, b in pairs]
        la, ha = (float(x) for x in A.knotvector.limits)
        lb, hb = (float(x) for x in B.knotvector.limits)
        for (a, b) in pairs:
            if not (la <= a <= ha and lb <= b <= hb):
                f.append(f"pair {(a, b)} outside the parameter intervals")
            elif float(np.linalg.norm(A(a) - B(b))) > 1e-6:
                f.append(f"pair {(a, b)}: curves do not meet there (distance {float(np.linalg.norm(A(a) - B(b)))!r})")
        for i, p in enumerate(pairs):
            for q in pairs[:i]:
                if abs(p[0] - q[0]) < 1e-9 and abs(p[1] - q[1]) < 1e-9:
                    f.append(f"duplicate pair {p}")
        if want["inclass"]:
            ws = [(float(fr(a)), float(fr(b))) for a, b in want["pairs"]]
            for w in ws:
                if not any(abs(w[0] - p[0]) <= 1e-6 and abs(w[1] - p[1]) <= 1e-6 for p in pairs):
                    f.append(f"crossing {w} not reported (got {pairs})")
            if not ws and pairs:
                f.append(f"curves do not meet but {pairs} returned")
        return f

    def check_obs(self, obj, obs, want):
        fails = []
        if want["kind"] != "kv" or not obs.get("view"):
            return fails
        v = obs["view"]
        try:
            if obj.degree != v["deg"]:
                fails.append(f"degree: got {obj.degree}, spec {v['deg']}")
            if obj.npts != v["npts"]:
                fails.append(f"npts: got {obj.npts}, spec {v['npts']}")
            if len(obj) != len(want["U"]):
                fails.append("len() disagrees with the element list")
            if not self.same_nums([self.num_out(self.mode.unnum(x)) for x in obj.knots], v["knots"]):
                fails.append(f"knots: got {obj.knots}, spec {v['knots']}")
            if not self.same_nums([self.num_out(self.mode.unnum(x)) for x in obj.limits], v["limits"]):
                fails.append(f"limits: got {obj.limits}, spec {v['limits']}")
            # the element list through every access path: iteration, indexing from both ends, slices, .internal
            items = list(obj)
            n = len(items)
            byidx = [obj[i] for i in range(n)]
            byneg = [obj[i - n] for i in range(n)]
            if byidx != items or byneg != items or list(obj.internal) != items or list(obj[1:n - 1]) != items[1:n - 1]:
                fails.append(f"indexing / slicing / .internal disagree with iteration: {items} vs {byidx}, {byneg}, {list(obj.internal)}")
            try:
                obj[n]
                fails.append("kv[len(kv)] did not raise IndexError")
            except IndexError:
                pass
        except Exception as e:
            fails.append(f"view raised {type(e).__name__}: {e}")
            return fails
        # IEEE nan is inside no interval: not valid, span / mult raise ValueError, inserting or removing it is refused
        import copy as _cp
        import threading
        nan = float("nan")
        try:
            if obj.valid([nan]):
                fails.append("valid([nan]) is True")
            else:
                for q in (obj.span, obj.mult):
                    try:
                        q(nan)
                        fails.append(f"{q.__name__}(nan) returned instead of raising ValueError")
                    except ValueError:
                        pass
                trial = _cp.deepcopy(obj)
                for op in (trial.insert, trial.remove):
                    try:
                        op([nan])
                        fails.append(f"{op.__name__}([nan]) was accepted: {list(trial)}")
                    except ValueError:
                        pass
                    except Exception as e:
                        fails.append(f"{op.__name__}([nan]) raised {type(e).__name__}, not ValueError")
        except Exception as e:
            fails.append(f"valid([nan]) raised {type(e).__name__}: {e}")
        good = []
        for row in obs["q"]:
            u = self.mode.num(row["u"])
            if not self.mode.exact and self.mode.name != "far-float":   # (far-float inputs are exact by construction)
                # a query AT a knot means at the library's own (rounded) value of that knot, which was compared with the
                # spec's value just above; a knot computed as 1.0 + 2/7 differs from float(9/7) by one ulp
                for k in obj.knots:
                    if abs(float(k) - float(u)) <= 1e-9 * max(1.0, abs(float(u))):
                        u = k
            try:
                ok = obj.valid([u])
            except Exception as e:
                fails.append(f"valid({u}) raised {type(e).__name__}")
                continue
            if bool(ok) != row["valid"]:
                fails.append(f"valid([{u}]): got {ok}, spec {row['valid']}")
                continue
            if row["valid"]:
                good.append((u, row))
                try:
                    s, m = obj.span(u), obj.mult(u)
                    if s != row["span"]:
                        fails.append(f"span({u}): got {s}, spec {row['span']}")
                    if m != row["mult"]:
                        fails.append(f"mult({u}): got {m}, spec {row['mult']}")
                except Exception as e:
                    fails.append(f"span/mult({u}) raised {type(e).__name__}: {e}")
            else:
                for q in (obj.span, obj.mult):
                    try:
                        q(u)
                        fails.append(f"{q.__name__}({u}) outside the interval returned instead of raising ValueError")
                    except ValueError:
                        pass
                    except Exception as e:
                        fails.append(f"{q.__name__}({u}) outside raised {type(e).__name__}, not ValueError")
        if self.mode.exact and self.mode.name == "fraction" and not fails:
            # nodes an "epsilon" away from a knot: same order relations as the interior node of that span, hence the
            # same answers; exact rational arithmetic must not confuse them with the knot itself
            knots = sorted({fr(x) for x in want["U"]})
            eps = Fraction(1, 10 ** 30)
            for u, row in good:
                if row["mult"] != 0:
                    continue
                a = max(k for k in knots if k < u)
                b = min(k for k in knots if k > u)
                for v in (b - (b - a) * eps, a + (b - a) * eps):
                    try:
                        if obj.valid([v]) is not True and obj.valid([v]) != True:
                            fails.append(f"valid([{v}]) is not True")
                        elif obj.span(v) != row["span"]:
                            # (mult is not asked: it counts occurrences within the library's documented 1e-9 tolerance)
                            fails.append(f"span just beside a knot: span(knot -/+ 1e-30 of the span, about {float(v)!r}) = {obj.span(v)}, "
                                         f"spec {row['span']}: U[k] <= u < U[k+1] is an exact relation")
                    except Exception as e:
                        fails.append(f"span/mult beside a knot raised {type(e).__name__}: {e}")
        if good and not fails:  # vector forms answer in order
            us = [u for u, _ in good]
            try:
                if list(obj.span(us)) != [r["span"] for _, r in good] or list(obj.mult(us)) != [r["mult"] for _, r in good]:
                    fails.append("span/mult on a sequence disagree with the scalar answers")
                if obj.valid(us) is not True and obj.valid(us) != True:
                    fails.append("valid(sequence of valid nodes) is not True")
            except Exception as e:
                fails.append(f"span/mult(sequence) raised {type(e).__name__}: {e}")
        return fails

    def _kv_equals(self, kv, want):
        try:
            return self.same_nums([self.num_out(self.mode.unnum(x)) for x in kv], want)
        except TypeError:
            return False

    def cmp_KvOr(self, live, t, val):
        f = []
        if not self._kv_equals(val["kv"], t["ret"]["val"]):
            f.append(f"result: got {list(val['kv'])}, spec {t['ret']['val']}")
        if not val["other_unchanged"]:
            f.append("right operand modified")
        if not val["fresh"]:
            f.append("result aliases the left operand")
        return f

    cmp_KvAnd = cmp_KvOr

    def cmp_KvSplit(self, live, t, val):
        want = t["ret"]["val"]
        got = val["pieces"]
        if len(got) != len(want):
            return [f"{len(got)} pieces, spec {len(want)}"]
        return [f"piece {i}: got {list(g)}, spec {w}" for i, (g, w) in enumerate(zip(got, want))
                if not self._kv_equals(g, w)]

    def cmp_KvCopy(self, live, t, val):
        f = []
        kv = live[t["act"]["obj"]]
        for c in val["copies"]:
            if c is kv:
                f.append("copy is the same object")
                continue
            if not self._kv_equals(c, t["ret"]["val"]):
                f.append("copy differs from the original")
            U = list(c)
            lo, hi = c.limits
            try:
                c.shift(1)
            except Exception as e:
                f.append(f"shifting the copy raised {e!r}")
            if not self._kv_equals(kv, t["ret"]["val"]):
                f.append("mutating the copy changed the original")
        return f

    def cmp_KvInsert(self, live, t, val):
        if val is not None and not val["same"]:
            return ["insert() did not return the same instance"]
        return []

    def _point_ok(self, got, want):
        try:
            g = self.num_out(self.mode.unpt(got))
        except TypeError:
            return False, f"inexact value {got!r} ({type(got).__name__}) from exact data"
        if self.mode.exact:
            return list(g) == list(want), f"got {got}, spec {fr(want)}"
        return close(g, fr(want)), f"got {got}, spec {float(fr(want))}"

    def cmp_CvEval(self, live, t, val):
        f = []
        want = t["ret"]["val"]
        if val["scalar"]:
            got = val["vals"]
        else:
            got = val["vals"]
            if not isinstance(got, tuple):
                f.append(f"sequence argument returned {type(got).__name__}, not a tuple of points")
            got = list(got)
        if len(got) != len(want):
            return f + [f"{len(got)} values for {len(want)} nodes"]
        for i, (g, w) in enumerate(zip(got, want)):
            ok, msg = self._point_ok(g, w)
            if not ok:
                f.append(f"value at node {t['act']['nodes'][i]}: {msg}")
        if not f and not val["scalar"] and t["act"].get("form") == "tuple" and len(want) > 2:
            f += self.near_knot_values(live[t["act"]["obj"]], t)
        return f

    def near_knot_values(self, c, t):
        """Parameters 1e-12 beside an interior knot.  On a span a polynomial curve IS the polynomial through the
        spec's values at the deg+1 (or more) grid points of that span, so the value just left (right) of a knot is that
        polynomial's value there - even where the library's tolerance-based multiplicity count would call the
        parameter "the knot".  TLC cannot hold 1e-12 (32-bit integers); the interpolation is done here, on TLC's values."""
        pre = t["pre"][t["act"]["obj"]]
        if pre.get("W") or self.mode.name not in ("fraction", "int", "float", "numpy.float64"):
            return []
        U = [fr(x) for x in pre["U"]]
        deg = self._deg(pre["U"])
        ks = sorted(set(U))
        pts = {}
        for u, w in zip(t["act"]["nodes"], t["ret"]["val"]):
            if isinstance(w, list) and len(w) == 2 and all(isinstance(z, int) for z in w) and w[1] != 0:
                pts[fr(u)] = fr(w)
        eps = Fraction(1, 10 ** 12)
        out = []

        def lagrange(xs, x):
            tot = Fraction(0)
            for i, xi in enumerate(xs):
                term = pts[xi]
                for j, xj in enumerate(xs):
                    if j != i:
                        term *= (x - xj) / (xi - xj)
                tot += term
            return tot

        for a, b in zip(ks[:-1], ks[1:]):
            inside = sorted(x for x in pts if a <= x < b)[: deg + 1]     # the value at a is the right piece's value
            if len(inside) < deg + 1:
                continue
            for x in ([b - eps] if b != ks[-1] else []) + ([a + eps] if a != ks[0] else []):
                want = lagrange(inside, x)
                try:
                    got = c(self.mode.num(rat(x)))
                except Exception as e:
                    out.append(f"value 1e-12 beside the knot {b if x > inside[-1] else a} raised {type(e).__name__}: {e}")
                    continue
                if self.mode.exact:
                    ok = (not isinstance(got, float)) and Fraction(got) == want
                else:
                    ok = close(got, want)
                if not ok:
                    out.append(f"value at {float(x)!r} (1e-12 beside a knot, inside the span [{a}, {b})): got {got!r}, "
                               f"the span's polynomial gives {want}")
        return out

    def cmp_FnBasis(self, live, t, val):
        """ret.val = the row [N_0j(u) .. ]; compare every indexing form"""
        f = []
        a = t["act"]
        want = t["ret"]["val"]
        fn, u, j = val["f"], val["u"], a["j"]
        p, npts = fn.degree, fn.npts
        nrows = len(want)  # Len(U)-j-1 for splines (rows beyond are not functions of degree j), npts for rational

        def row_ok(g, w, what):
            ok, msg = self._point_ok(g, w)
            if not ok:
                f.append(f"{what}: {msg}")

        try:
            col = fn[:, j](u)
        except Exception as e:
            return [f"f[:, {j}]({u}) raised {type(e).__name__}: {e}"]
        if len(col) != npts:
            f.append(f"f[:, j](u) has {len(col)} rows, npts = {npts}")
        for i in range(min(nrows, len(col))):
            row_ok(col[i], want[i], f"f[:, {j}]({u})[{i}]")
        for i in range(nrows, len(col)):  # rows past the last degree-j function must vanish
            ok, msg = self._point_ok(col[i], [0, 1])
            if not ok:
                f.append(f"f[:, {j}]({u})[{i}] should be 0: {msg}")
        if f:
            return f
        for i in range(min(nrows, npts)):
            row_ok(fn[i, j](u), want[i], f"f[{i}, {j}]({u})")
            row_ok(fn[i - npts, j](u), want[i], f"f[{i - npts}, {j}]({u})")
        if j == p:
            full = fn(u)
            for i in range(npts):
                row_ok(full[i], want[i], f"f({u})[{i}]")
                row_ok(fn[i](u), want[i], f"f[{i}]({u})")
            sl = fn[1:](u)
            for i in range(1, npts):
                row_ok(sl[i - 1], want[i], f"f[1:]({u})[{i - 1}]")
        sl = fn[0:2, j](u)
        for i in range(min(2, nrows, npts)):
            row_ok(sl[i], want[i], f"f[0:2, {j}]({u})[{i}]")
        # sequence of nodes: one row per function, one column per node
        tab = fn[:, j]([u, u])
        for i in range(min(nrows, npts)):
            row_ok(tab[i][1], want[i], f"f[:, {j}]([u,u])[{i}][1]")
        # several nodes at once, unsorted and repeated, as a numpy array: column k is the table at node k
        import numpy as np
        lo, hi = fn.knotvector.limits
        arr = np.array([hi, u, lo, u], dtype=object if self.mode.exact else float)
        tab = fn[:, j](arr)
        for i in range(min(nrows, npts)):
            row_ok(tab[i][1], want[i], f"f[:, {j}](array)[{i}][1]")
            row_ok(tab[i][3], want[i], f"f[:, {j}](array)[{i}][3]")
            for k, v in ((0, hi), (2, lo)):
                if not self._same_value(tab[i][k], fn[i, j](v)):
                    f.append(f"f[:, {j}](array)[{i}][{k}] = {tab[i][k]!r} but f[{i}, {j}]({v}) = {fn[i, j](v)!r}")
        # negative and stepped slices select rows of the same table
        if npts >= 2:
            for what, sl_, idx in (("f[-2:, j]", fn[-2:, j](u), range(npts - 2, npts)), ("f[::2, j]", fn[::2, j](u), range(0, npts, 2)),
                                   ("f[::-1, j]", fn[::-1, j](u), range(npts - 1, -1, -1))):
                for k, i in enumerate(idx):
                    if i < nrows:
                        row_ok(sl_[k], want[i], f"{what}({u})[{k}]")
        # a copy is an equal, independent Function; removing the weights gives the polynomial table again
        import copy as _copy
        g = _copy.deepcopy(fn)
        col2 = g[:, j](u)
        for i in range(min(nrows, npts)):
            row_ok(col2[i], want[i], f"deepcopy(f)[:, {j}]({u})[{i}]")
        if t["act"]["weights"]:
            g.weights = None
            col3 = g[:, j](u)
            h = self.Function(fn.knotvector)
            ref = h[:, j](u)
            if any(not self._same_value(x, y) for x, y in zip(col3, ref)):
                f.append(f"after weights = None the table differs from a Function that never had weights: {list(col3)} vs {list(ref)}")
            again = fn[:, j](u)   # and the original still has its weights
            for i in range(min(nrows, npts)):
                row_ok(again[i], want[i], f"f[:, {j}]({u})[{i}] after changing a copy")
        for bad in (npts, -npts - 1):
            try:
                fn[bad, j]
                f.append(f"index {bad} accepted")
            except (IndexError, TypeError):
                pass
        try:
            fn[0, p + 1]
            f.append(f"sub-degree {p + 1} accepted")
        except (IndexError, TypeError):
            pass
        return f

    def _same_value(self, x, y):
        if self.mode.exact:
            return x == y
        return close(x, y)

    def cmp_CvSplit(self, live, t, val):
        want = t["ret"]["val"]
        got = val["pieces"]
        if len(got) != len(want):
            return [f"{len(got)} pieces, spec {len(want)}"]
        f = []
        # the pieces are new curves: mutating them must not reach the operand (checked after the comparison)
        operand = live[t["act"]["obj"]]
        if any(g is operand for g in got):
            f.append("aliasing: a returned piece is the operand itself")
        for i, (g, w) in enumerate(zip(got, want)):
            try:
                pg = self.project(g)
            except TypeError as e:
                f.append(f"piece {i}: inexact number: {e}")
                continue
            w2 = dict(w)
            w2["kind"] = "cv"
            if not self.same_obj(pg, w2):
                f.append(f"piece {i}: got {pg}, spec {w}")
        if not f:
            before = self.project(operand)
            try:
                for g in got:
                    g.degree_increase(1)
                    g.ctrlpoints = [3 * p for p in g.ctrlpoints]
            except Exception as e:
                f.append(f"aliasing: mutating a piece raised {type(e).__name__}: {e}")
            if self.project(operand) != before:
                f.append("aliasing: mutating a returned piece changed the operand")
        return f


# ------------------------------------------------------------------------------------
def state_key(heap, depth, memo=None):
    m = None if memo is None else {k: sorted(v) for k, v in memo.items()}
    return json.dumps([heap, depth, m], sort_keys=True)


def _paths(records):
    parent = {}
    for t in records:
        k = state_key(t["post"], t["d"], t.get("mpost"))
        if k not in parent or (parent[k]["ret"]["class"] != "ok" and t["ret"]["class"] == "ok"):
            parent[k] = t
    return parent


def has_nar(x):
    """NaR = [0, 0] inside a spec-computed value: the model's arithmetic left 32 bits there"""
    if isinstance(x, list):
        if len(x) == 2 and x[0] == 0 and x[1] == 0 and not isinstance(x[0], bool):
            return True
        return any(has_nar(y) for y in x)
    if isinstance(x, dict):
        return any(has_nar(y) for y in x.values())
    return False


def _replay_one(t, parent, replayer):
    if t.get("ovf") or has_nar(t["ret"]) or has_nar(t["post"]) or has_nar(t.get("obs")) or has_nar(t["pre"]):
        return ["__unknown__"]
    # path from an initial state to t.pre
    path = []
    heap, d, memo = t["pre"], t["d"] - 1, t.get("mpre")
    while d > 0:
        p = parent.get(state_key(heap, d, memo))
        if p is None:
            raise core.MachineryError("transition log has no path to a pre-state")
        path.append(p)
        heap, d, memo = p["pre"], d - 1, p.get("mpre")
    live = replayer.build(heap)
    replayer.reset_module_state()
    saved = replayer.validator
    replayer.validator = None  # the steps of the history are judged when they are the target
    try:
        for p in reversed(path):
            replayer.execute(live, p["act"])
    finally:
        replayer.validator = saved
    if path:
        # the history must have led to t.pre (each step of it is itself compared as a transition);
        # if it did not, start from a freshly built pre-state so that t is judged on its own
        try:
            intact = all(replayer.same_obj(replayer.project(live.get(k)), v) for k, v in t["pre"].items())
        except TypeError:
            intact = False
        if not intact:
            live = replayer.build(t["pre"])
    cls, val, exc = replayer.execute(live, t["act"])
    return replayer.compare(live, t, cls, val, exc)


_W = {}


def _worker(args):
    lo, hi = args
    from .trace import Validator

    val = Validator()
    r = _W["replayer"]                      # the configured replayer, copied into this process by fork
    r.validator = val if _W["emit"] else None
    recs, parent = _W["records"], _W["parent"]
    out = []
    for i in range(lo, hi):
        fails = _replay_one(recs[i], parent, r)
        if fails:
            out.append((i, fails))
    return out, [(ev, tag) for ev, tag in val.events], hi - lo


def replay_all(records, replayer, on_fail, *, sample=None, limit=None, nproc=None, path_records=None):
    """Replay every logged transition on a live heap that reached its pre-state through real calls.

    records: list of transition dicts.  on_fail(t, fails) is called for each non-conforming one.
    Events for Binding B are appended to replayer.validator.  Runs in a pool of forked workers.
    Returns number of transitions executed and compared.
    """
    import multiprocessing as mp

    if limit is not None:
        records = records[:limit]
    parent = _paths(path_records if path_records is not None else records)
    nproc = nproc or core.WORKERS
    n = 0
    if len(records) < 200 or nproc <= 1:
        for t in records:
            fails = _replay_one(t, parent, replayer)
            n += 1
            if fails == ["__unknown__"]:
                replayer.unknown = getattr(replayer, "unknown", 0) + 1
                n -= 1
            elif fails:
                on_fail(t, fails)
            elif sample is not None:
                sample(t)
        return n
    _W.update(records=records, parent=parent, replayer=replayer, emit=replayer.validator is not None)
    size = max(20, len(records) // (nproc * 8))
    chunks = [(i, min(i + size, len(records))) for i in range(0, len(records), size)]
    ctx = mp.get_context("fork")
    with ctx.Pool(nproc) as pool:
        results = pool.map(_worker, chunks)
    failed = set()
    for out, events, k in results:
        n += k
        for i, fails in out:
            failed.add(i)
            if fails == ["__unknown__"]:
                replayer.unknown = getattr(replayer, "unknown", 0) + 1
                n -= 1
                continue
            on_fail(records[i], fails)
        if replayer.validator is not None:
            for ev, tag in events:
                replayer.validator.add(ev["act"], c=ev["c"], b=ev["b"], d=ev["d"], cls=ev["cls"], tag=tag, dv=ev["dv"])
    if sample is not None:
        for i, t in enumerate(records[:50]):
            if i not in failed:
                sample(t)
    _W.clear()
    return n
