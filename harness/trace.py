"""Binding B: events observed on the real implementation are judged by TLC (spec/Trace.tla).

An event is a dict with keys
  id   : int (assigned here)
  act  : {"name": ..., action arguments as JSON rationals ...}
  c, b, d : curves {"U":..,"P":..,"W":..} (pre-state / other operand / observed result); dummies if unused
  cls  : observed outcome class ("ok" | "ValueError" | "Error")
  tag  : free-form info kept on the Python side (not sent to TLC)
Every event gets a verdict; events whose integers do not fit TLC's 32 bits are counted as `unknown`
(never a violation).  If TLC aborts with an arithmetic overflow while judging event k, that event is
marked unknown and the rest is re-run.
"""
from __future__ import annotations

import json
import os
import re
import tempfile

from . import core

DUMMY = {"U": [], "P": [], "W": []}


class Validator:
    def __init__(self, module="Trace.tla", cfg="Trace.cfg"):
        self.events = []
        self.module = module
        self.cfg = cfg

    def add_raw(self, ev, tag=None):
        ev = dict(ev)
        ev["id"] = len(self.events) + 1
        self.events.append((ev, tag))
        return ev["id"]

    def add(self, act, c=None, b=None, d=None, cls="ok", tag=None, dv=None):
        ev = {"id": len(self.events) + 1, "act": act, "c": c or DUMMY, "b": b or DUMMY, "d": d or DUMMY,
              "cls": cls, "dv": dv or []}
        self.events.append((ev, tag))
        return ev["id"]

    def run(self, timeout=3000, limit=2 ** 27):
        """returns (verdicts: id -> list of failing clauses, unknown: set of ids, stats)"""
        verdicts, unknown = {}, set()
        todo = []
        for ev, _ in self.events:
            if core.fits32(ev, limit):
                todo.append(ev)
            else:
                unknown.add(ev["id"])
        stats = {"events": len(self.events), "tlc_runs": 0, "states": 0, "generated": 0, "wall_s": 0.0}
        rounds = 0
        while todo:
            rounds += 1
            if rounds > 40:
                raise core.MachineryError("too many overflow retries in trace validation")
            fd, path = tempfile.mkstemp(prefix="verif_trace_", suffix=".ndjson")
            try:
                with os.fdopen(fd, "w") as f:
                    for ev in todo:
                        f.write(json.dumps(ev, separators=(",", ":")) + "\n")
                res = core.run_tlc(self.module, self.cfg, env={"TRACE_FILE": path}, timeout=timeout)
            finally:
                os.unlink(path)
            stats["tlc_runs"] += 1
            stats["states"] += res.distinct
            stats["generated"] += res.generated
            stats["wall_s"] += round(res.wall, 2)
            for r in res.records:
                if r.get("ovf"):
                    unknown.add(r["id"])
                    verdicts[r["id"]] = []
                else:
                    verdicts[r["id"]] = r["fail"]
            if res.ok:
                break
            # overflow (or other evaluation error) while judging one event: find it, mark unknown, go on
            text = (res.error or "") + (res.violation or "")
            ms = re.findall(r"idx = (\d+)", text)
            m = ms[-1] if ms else None
            if m and int(m) > 0 and ("verflow" in text or "out of range" in text or "Attempted" in text or "division" in text.lower()):
                k = int(m)
                bad = todo[k - 1]
                if "verflow" not in text:
                    raise core.MachineryError(
                        f"TLC evaluation error on event {bad['id']} ({bad['act']}):\n{text[:3000]}")
                unknown.add(bad["id"])
                todo = [e for e in todo if e["id"] != bad["id"] and e["id"] not in verdicts]
                continue
            raise core.MachineryError(f"trace validation failed:\n{text[:4000]}\n{res.raw_tail[-2000:]}")
        for k in unknown:
            verdicts.pop(k, None)
        missing = [ev["id"] for ev, _ in self.events if ev["id"] not in verdicts and ev["id"] not in unknown]
        if missing:
            raise core.MachineryError(f"{len(missing)} events were not judged (e.g. id {missing[0]})")
        return verdicts, unknown, stats


def replay_event(prop, doc):
    """re-judge one recorded event (it carries the observed result, so this re-checks the verdict;
    re-running the implementation is what the check itself does)"""
    ev = doc["detail"]["event"]
    v = Validator("TraceSuite.tla", "TraceSuite.cfg") if "kind" in ev else Validator()
    v.events.append((dict(ev, id=1), None))
    verdicts, unknown, _ = v.run()
    fails = verdicts.get(1, [])
    if fails:
        print(f"VIOLATION property={prop} replay=(event) clauses={fails}")
        return 1
    print("event conforms")
    return 0
