"""External recorder: a pytest plugin that wraps the public methods of KnotVector and Curve FROM OUTSIDE
(no change to /repo) and writes one event per top-level public call to an ndjson file.

Enabled only when COMPMEC_NURBS_VERIF=1 (MANIFEST.hooks.guard); with the guard unset nothing is wrapped.
Usage:  COMPMEC_NURBS_VERIF=1 VERIF_TRACE_OUT=/path/events.ndjson PYTHONPATH=/verif \
        python -m pytest -p harness.recorder ...

Values in the repository's tests are mostly floats, which TLC cannot represent.  Knot-vector operations
other than shift/scale are purely order-theoretic, so every number of an event (knots before/after, node
arguments) is replaced by its RANK among the distinct numbers of that event (a homomorphism for order and
equality).  Events in which two distinct numbers are closer than 1e-5 relative are marked ambiguous and
skipped by the validator (the library's own 1e-6 / 1e-9 merge tolerances would make ranks ambiguous).
Curve states are recorded as (ranked knot vector, number of control points, number of weights, intern id of
the exact snapshot) so that consistency, atomicity and operand immutability are decidable without values.
"""
from __future__ import annotations

import functools
import json
import os
from fractions import Fraction

GUARD = os.environ.get("COMPMEC_NURBS_VERIF") == "1"
OUT = os.environ.get("VERIF_TRACE_OUT", "/tmp/verif_suite_events.ndjson")

_depth = 0
_out = None
_intern = {}
_count = 0


def _isnum(x):
    import numpy as np
    return isinstance(x, (int, float, Fraction, np.integer, np.floating)) and not isinstance(x, bool)


def _nums(x):
    """flatten x into a list of numbers, or None if something is not a number"""
    if _isnum(x):
        return [x]
    if isinstance(x, (str, bytes)) or x is None:
        return None
    try:
        out = []
        for y in x:
            r = _nums(y)
            if r is None:
                return None
            out += r
        return out
    except TypeError:
        return None


def _rank_all(groups):
    """groups: dict name -> list of numbers.  Returns (dict name -> list of ranks, ambiguous flag)"""
    allv = sorted({float(v) if not isinstance(v, Fraction) else v for g in groups.values() for v in g})
    amb = False
    for a, b in zip(allv[:-1], allv[1:]):
        if a != b and abs(float(b) - float(a)) <= 1e-5 * max(1.0, abs(float(a)), abs(float(b))):
            amb = True
    idx = {v: i for i, v in enumerate(allv)}
    out = {}
    for k, g in groups.items():
        out[k] = [idx[float(v) if not isinstance(v, Fraction) else v] for v in g]
    return out, amb


def _snap_id(obj):
    key = repr(obj)
    if key not in _intern:
        _intern[key] = len(_intern) + 1
    return _intern[key]


def _curve_state(c):
    try:
        U = list(c.knotvector)
        P = c.ctrlpoints
        W = c.weights
        import numpy as np
        fp = _snap_id((tuple(U), None if P is None else tuple(np.array(p).tobytes() if hasattr(p, "shape") else repr(p) for p in P),
                       None if W is None else tuple(repr(w) for w in W)))
        return {"U": U, "nP": -1 if P is None else len(P), "nW": -1 if W is None else len(W), "fp": fp}
    except Exception as e:  # the object cannot be read back: that itself is recorded
        return {"U": [], "nP": -2, "nW": -2, "fp": -1, "error": type(e).__name__}


def _emit(ev):
    global _out, _count
    if _out is None:
        _out = open(OUT, "w")
    _count += 1
    ev["id"] = _count
    _out.write(json.dumps(ev, separators=(",", ":"), default=str) + "\n")
    _out.flush()


def _cls_of(exc):
    if exc is None:
        return "ok"
    return "ValueError" if isinstance(exc, ValueError) else "Error"


def _wrap_kv(cls, name, kind):
    orig = getattr(cls, name)

    @functools.wraps(orig)
    def wrapper(self, *args, **kw):
        global _depth
        if _depth > 0:
            return orig(self, *args, **kw)
        _depth += 1
        pre = list(self)
        argn = _nums(args[0]) if args else []
        exc = None
        ret = None
        try:
            ret = orig(self, *args, **kw)
            return ret
        except BaseException as e:
            exc = e
            raise
        finally:
            _depth -= 1
            try:
                post = list(self)
                groups = {"pre": pre, "post": post}
                scalar_arg = bool(args) and _isnum(args[0])
                if argn is not None and kind not in ("affine",):
                    groups["arg"] = argn
                retn = None
                if kind == "query" and exc is None:
                    retn = ret if not isinstance(ret, tuple) else list(ret)
                if kind == "binary" and exc is None:
                    groups["ret"] = list(ret)
                if kind == "split" and exc is None:
                    for i, piece in enumerate(ret):
                        groups[f"piece{i}"] = list(piece)
                if kind == "affine" or (kind in ("iadd", "isub") and scalar_arg):
                    # a shift / scale: values change, rank the two vectors separately
                    r1, a1 = _rank_all({"pre": pre})
                    r2, a2 = _rank_all({"post": post})
                    ranks, amb = {"pre": r1["pre"], "post": r2["post"]}, a1 or a2
                else:
                    ranks, amb = _rank_all(groups)
                ev = {"kind": "kv", "name": name, "op": kind, "pre": ranks["pre"], "post": ranks["post"],
                      "arg": ranks.get("arg", []), "argok": argn is not None, "scalar": scalar_arg,
                      "cls": _cls_of(exc), "amb": amb, "ret": [], "pieces": []}
                if kind == "query" and exc is None:
                    if name == "valid":
                        ev["ret"] = [1 if ret else 0]
                    else:
                        ev["ret"] = [int(x) for x in (retn if isinstance(retn, list) else [retn])]
                if kind == "binary" and exc is None:
                    ev["ret"] = ranks["ret"]
                if kind == "split" and exc is None:
                    ev["pieces"] = [ranks[f"piece{i}"] for i in range(len(ret))]
                _emit(ev)
            except Exception as e:  # never disturb the test
                _emit({"kind": "recorder_error", "name": name, "error": repr(e)})
    return wrapper


def _wrap_curve(cls, name, kind):
    orig = getattr(cls, name)

    @functools.wraps(orig)
    def wrapper(self, *args, **kw):
        global _depth
        if _depth > 0:
            return orig(self, *args, **kw)
        _depth += 1
        pre = _curve_state(self)
        others = [a for a in args if isinstance(a, cls.__mro__[-3] if False else type(self))]
        opre = [_curve_state(o) for o in others]
        argn = _nums(args[0]) if args and kind in ("insert", "remove", "split") else None
        times = args[0] if args and kind in ("elevate", "reduce") and isinstance(args[0], int) else (1 if kind in ("elevate", "reduce") else 0)
        exc = None
        try:
            return orig(self, *args, **kw)
        except BaseException as e:
            exc = e
            raise
        finally:
            _depth -= 1
            try:
                post = _curve_state(self)
                opost = [_curve_state(o) for o in others]
                groups = {"pre": pre["U"], "post": post["U"]}
                if argn is not None:
                    groups["arg"] = argn
                ranks, amb = _rank_all(groups)
                _emit({"kind": "cv", "name": name, "op": kind, "pre": ranks["pre"], "post": ranks["post"],
                       "arg": ranks.get("arg", []), "argok": argn is not None, "times": int(times),
                       "nP": [pre["nP"], post["nP"]], "nW": [pre["nW"], post["nW"]], "fp": [pre["fp"], post["fp"]],
                       "ofp": [[a["fp"], b["fp"]] for a, b in zip(opre, opost)],
                       "cls": _cls_of(exc), "amb": amb})
            except Exception as e:
                _emit({"kind": "recorder_error", "name": name, "error": repr(e)})
    return wrapper


KV_METHODS = {"insert": "insert", "remove": "remove", "__iadd__": "iadd", "__isub__": "isub",
              "shift": "affine", "scale": "affine", "normalize": "affine",
              "span": "query", "mult": "query", "valid": "query",
              "__or__": "binary", "__and__": "binary", "__ior__": "ibinary", "__iand__": "ibinary", "split": "split"}
CV_METHODS = {"knot_insert": "insert", "knot_remove": "remove", "knot_clean": "mutate", "degree_increase": "elevate",
              "degree_decrease": "reduce", "degree_clean": "mutate", "clean": "mutate",
              "eval": "pure", "__call__": "pure", "split": "split", "__add__": "pure", "__sub__": "pure", "__mul__": "pure",
              "__truediv__": "pure", "__matmul__": "pure", "__neg__": "pure", "__eq__": "pure", "__ne__": "pure",
              "__or__": "pure", "fraction": "pure", "__copy__": "pure", "__deepcopy__": "pure",
              "fit_curve": "fit", "fit_points": "fit", "fit_function": "fit", "fit": "fit"}


def install():
    from compmec.nurbs import curves, knotspace
    for name, kind in KV_METHODS.items():
        if hasattr(knotspace.KnotVector, name):
            setattr(knotspace.KnotVector, name, _wrap_kv(knotspace.KnotVector, name, kind))
    for name, kind in CV_METHODS.items():
        for cls in (curves.Curve, curves.BaseCurve):
            if name in cls.__dict__:
                setattr(cls, name, _wrap_curve(cls, name, kind))


def pytest_configure(config):
    if GUARD:
        install()


def pytest_unconfigure(config):
    if _out is not None:
        _out.close()
