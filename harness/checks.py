"""One entry point per property.  Every check is: TLC explores a bounded instance of
spec/Nurbs.tla (invariants + action properties on), every explored transition is replayed into
the real library (Binding A), observed behaviour that the spec does not determine uniquely is sent
back to TLC and judged by the action's clauses (Binding B, harness/trace.py)."""
from __future__ import annotations

import json
import os

from . import core
from .core import Evidence, Reporter, run_tlc, need_ok
from .replay import Replayer, replay_all


def short(t):
    return {"act": t["act"], "pre": t["pre"], "ret": t["ret"]}


def fail_key(t, fails):
    """stable identification of a failure: action, form, failing aspect"""
    a = t["act"]
    aspect = fails[0].split(":")[0].split("[")[0].strip()
    form = a.get("form", "")
    return f"{a['name']}{('/' + form) if form else ''}:{aspect}"


def event_key(ev, fails):
    a = ev["act"]
    kind = "rational" if (ev["c"]["W"] or ev["b"]["W"]) else "polynomial"
    extra = a.get("op") or a.get("which") or (a.get("tol") or [""])[0]
    return f"{a['name']}{('/' + str(extra)) if extra else ''}:{kind}:{'+'.join(sorted(fails))}"


def model_replay(prop, tier, ev, rep, module, cfg, *, mode="fraction", label=None, keyfn=fail_key,
                 timeout=3000, filt=None):
    """run one MC instance, replay all its transitions (Binding A), judge the relationally specified
    outcomes with Trace.tla (Binding B), report failures; returns TLCResult"""
    from .trace import Validator

    res = run_tlc(module, cfg, timeout=timeout)
    need_ok(res, f"{module}/{cfg}")
    if res.violation:
        # the specification contradicts itself on this instance: never blame the code for that
        raise core.MachineryError(f"spec-level violation in {module}/{cfg}:\n{res.violation[:3000]}")
    ev.add_tlc(res, label or cfg)
    lib = core.import_lib()
    val = Validator()
    r = Replayer(lib, mode, validator=val)
    recs = res.records if filt is None else [t for t in res.records if filt(t)]

    def on_fail(t, fails):
        rep.violation(keyfn(t, fails), {"transition": t, "failures": fails, "mode": mode,
                                        "model": module, "cfg": cfg})

    n = replay_all(recs, r, on_fail, sample=lambda t: ev.sample(short(t)))
    ev.validated += n
    per = ev.extra.setdefault("replayed_by_action", {})
    for t in recs:
        per[t["act"]["name"]] = per.get(t["act"]["name"], 0) + 1
    if val.events:
        verdicts, unknown, stats = val.run(timeout=timeout)
        b = ev.extra.setdefault("binding_B", {"events_judged_by_TLC": 0, "unknown_overflow": 0, "tlc_states": 0,
                                              "tlc_wall_s": 0.0, "failing_events": 0})
        b["events_judged_by_TLC"] += len(verdicts)
        b["unknown_overflow"] += len(unknown)
        b["tlc_states"] += stats["states"]
        b["tlc_wall_s"] = round(b["tlc_wall_s"] + stats["wall_s"], 2)
        ev.states += stats["states"]
        ev.transitions += stats["generated"]
        for e, tag in val.events:
            fails = verdicts.get(e["id"]) or []
            unk = [f for f in fails if f.startswith("?")]
            fails = [f for f in fails if not f.startswith("?")]
            if unk:
                b["unknown_clauses"] = b.get("unknown_clauses", 0) + len(unk)
            if fails:
                b["failing_events"] += 1
                rep.violation(event_key(e, fails), {"event": e, "clauses": fails, "transition": tag,
                                                    "mode": mode, "model": module, "cfg": cfg})
    return res


def finish(ev, rep):
    code = rep.finish()
    ev.write()
    return code


# ------------------------------------------------------------------------------------ C03
def c03(tier):
    ev = Evidence("C03", tier, core.seed())
    rep = Reporter("C03", ev)
    cfg = "MC_KnotVector_quick.cfg" if tier == "quick" else "MC_KnotVector_thorough.cfg"
    model_replay("C03", tier, ev, rep, "MC_KnotVector.tla", cfg)
    ev.assumptions += ["knot values are exact rationals in this run (float behaviour: C16/C18)",
                       "bounded universe: see spec/MC_KnotVector*.cfg"]
    return finish(ev, rep)


def simple(prop, cfgs, assumptions=()):
    def f(tier):
        ev = Evidence(prop, tier, core.seed())
        rep = Reporter(prop, ev)
        for module, cfg in cfgs:
            c = cfg.replace("TIER", tier)
            if not os.path.exists(os.path.join(core.SPEC, c)):
                c = cfg.replace("TIER", "quick")
            model_replay(prop, tier, ev, rep, module, c)
        ev.assumptions += list(assumptions)
        return finish(ev, rep)
    return f


c01 = simple("C01", [("MC_Curve.tla", "MC_Curve_eval_TIER.cfg")])
c02 = simple("C02", [("MC_Curve.tla", "MC_Curve_basis_TIER.cfg")])
c04 = simple("C04", [("MC_Curve.tla", "MC_Curve_insert_TIER.cfg")])
c05 = simple("C05", [("MC_Curve.tla", "MC_Curve_remove_TIER.cfg")])
c06 = simple("C06", [("MC_Curve.tla", "MC_Curve_elevate_TIER.cfg"), ("MC_Curve.tla", "MC_Curve_decrease_TIER.cfg")])
c07 = simple("C07", [("MC_Curve.tla", "MC_Curve_split_TIER.cfg"), ("MC_Curve.tla", "MC_Curve_join_TIER.cfg")])
c08 = simple("C08", [("MC_Curve.tla", "MC_Curve_arith_TIER.cfg")])
c13 = simple("C13", [("MC_Curve.tla", "MC_Curve_eq_TIER.cfg")])
c14 = simple("C14", [("MC_Curve.tla", "MC_Curve_clean_TIER.cfg")])
c09 = simple("C09", [("MC_Curve.tla", "MC_Curve_deriv_TIER.cfg")])
c11 = simple("C11", [("MC_Curve.tla", "MC_Curve_fitcurve_TIER.cfg")])
c12 = simple("C12", [("MC_Curve.tla", "MC_Curve_fitpoints_TIER.cfg")])
c17 = simple("C17", [("MC_KnotVector.tla", "MC_KvUnion_TIER.cfg")])
c19 = simple("C19", [("MC_Misc.tla", "MC_Misc_project_TIER.cfg")])
c20 = simple("C20", [("MC_Misc.tla", "MC_Misc_intersect_TIER.cfg")])

CHECKS = {"C01": c01, "C02": c02, "C03": c03, "C04": c04, "C05": c05, "C06": c06, "C07": c07, "C08": c08,
          "C13": c13, "C14": c14, "C09": c09, "C11": c11, "C12": c12, "C17": c17, "C19": c19, "C20": c20}


def run(prop, tier):
    if prop not in CHECKS:
        raise core.MachineryError(f"no check registered for {prop}")
    return CHECKS[prop](tier)


def replay_file(prop, path):
    """re-execute one recorded violation against the current tree"""
    with open(path) as f:
        doc = json.load(f)
    d = doc["detail"]
    if "transition" not in d:
        from . import trace
        return trace.replay_event(prop, doc)
    lib = core.import_lib()
    r = Replayer(lib, d.get("mode", "fraction"))
    t = d["transition"]
    live = r.build(t["pre"])
    cls, val, exc = r.execute(live, t["act"])
    fails = r.compare(live, t, cls, val, exc)
    if fails:
        print(f"VIOLATION property={prop} replay={path}")
        for x in fails:
            print("  " + x)
        return 1
    print(f"replay of {path}: conforms now")
    return 0
