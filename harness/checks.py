"""One entry point per property.  Every check is: TLC explores a bounded instance of
spec/Nurbs.tla (invariants + action properties on), every explored transition is replayed into
the real library (Binding A), observed behaviour that the spec does not determine uniquely is sent
back to TLC and judged by the action's clauses (Binding B, harness/trace.py)."""
from __future__ import annotations

import json
from fractions import Fraction
import os
import sys

from . import core
from .core import Evidence, Reporter, run_tlc, need_ok, fr
from .replay import Replayer, replay_all


def short(t):
    return {"act": t["act"], "pre": t["pre"], "ret": t["ret"]}


def fail_key(t, fails):
    """stable identification of a failure: action, form, failing aspect"""
    a = t["act"]
    import re
    aspect = fails[0].split(":")[0].split("[")[0].strip()
    aspect = re.sub(r"[-+]?\d[\d./e+-]*", "#", aspect)          # numbers are not part of the identification
    aspect = re.sub(r"\(\s*#\s*,\s*#\s*\)", "(#, #)", aspect)[:80]
    form = a.get("form", "")
    return f"{a['name']}{('/' + form) if form else ''}:{aspect}"


def event_key(ev, fails):
    a = ev["act"]
    kind = "rational" if (ev["c"]["W"] or ev["b"]["W"]) else "polynomial"
    extra = a.get("op") or a.get("which") or (a.get("tol") or [""])[0]
    return f"{a['name']}{('/' + str(extra)) if extra else ''}:{kind}:{'+'.join(sorted(fails))}"


def model_replay(prop, tier, ev, rep, module, cfg, *, mode="fraction", label=None, keyfn=fail_key,
                 timeout=3000, filt=None, vector=True):
    """run one MC instance, replay all its transitions (Binding A), judge the relationally specified
    outcomes with Trace.tla (Binding B), report failures; returns TLCResult"""
    from .trace import Validator

    res = run_tlc(module, cfg, timeout=timeout)
    need_ok(res, f"{module}/{cfg}")
    if res.violation:
        # the specification contradicts itself on this instance: never blame the code for that
        raise core.MachineryError(f"spec-level violation in {module}/{cfg}:\n{res.violation[:3000]}")
    ev.add_tlc(res, label or cfg)
    lib = core.import_lib()
    val = Validator()
    r = Replayer(lib, mode, validator=val)
    recs = res.records if filt is None else [t for t in res.records if filt(t)]

    def on_fail(t, fails):
        rep.violation(keyfn(t, fails), {"transition": t, "failures": fails, "mode": mode,
                                        "model": module, "cfg": cfg})

    n = replay_all(recs, r, on_fail, sample=lambda t: ev.sample(short(t)), path_records=res.records)
    ev.validated += n
    if getattr(r, "unknown", 0):
        ev.extra["transitions_skipped_model_overflow"] = ev.extra.get("transitions_skipped_model_overflow", 0) + r.unknown
    per = ev.extra.setdefault("replayed_by_action", {})
    for t in recs:
        per[t["act"]["name"]] = per.get(t["act"]["name"], 0) + 1
    if mode == "fraction" and vector:
        from .vector import vector_replay

        def on_fail_vec(t, fails):
            pair = t.pop("_pair", None) if isinstance(t, dict) else None
            rep.violation("vector:" + keyfn(t, fails), {"transition": t, "pair": pair, "failures": fails,
                                                        "mode": "fraction, 2-D points", "model": module, "cfg": cfg})
        nv = vector_replay(recs, lib, on_fail_vec)
        from .vector import vector_fit, vector_matmul, vector_scalar_ops, vector_fitpoints, vector_arith
        nv += vector_arith(recs, lib, val, on_fail_vec)
        nv += vector_fit(recs, lib, val, on_fail_vec)
        nv += vector_matmul(recs, lib, val, on_fail_vec)
        nv += vector_scalar_ops(recs, lib, val, on_fail_vec)
        nv += vector_fitpoints(recs, lib, val, on_fail_vec)
        ev.validated += nv
        ev.extra["paired_calls_with_2D_points"] = ev.extra.get("paired_calls_with_2D_points", 0) + nv
    if val.events:
        verdicts, unknown, stats = val.run(timeout=timeout)
        b = ev.extra.setdefault("binding_B", {"events_judged_by_TLC": 0, "unknown_overflow": 0, "tlc_states": 0,
                                              "tlc_wall_s": 0.0, "failing_events": 0})
        b["events_judged_by_TLC"] += len(verdicts)
        b["unknown_overflow"] += len(unknown)
        b["tlc_states"] += stats["states"]
        b["tlc_wall_s"] = round(b["tlc_wall_s"] + stats["wall_s"], 2)
        ev.states += stats["states"]
        ev.transitions += stats["generated"]
        for e, tag in val.events:
            fails = verdicts.get(e["id"]) or []
            unk = [f for f in fails if f.startswith("?")]
            fails = [f for f in fails if not f.startswith("?")]
            if unk:
                b["unknown_clauses"] = b.get("unknown_clauses", 0) + len(unk)
            if fails:
                b["failing_events"] += 1
                rep.violation(event_key(e, fails), {"event": e, "clauses": fails, "transition": tag,
                                                    "mode": mode, "model": module, "cfg": cfg})
    return res


def judge_events(ev, rep, val, timeout=3000):
    """run Binding B on the events collected in val and report failing clauses"""
    if not val.events:
        return
    verdicts, unknown, stats = val.run(timeout=timeout)
    b = ev.extra.setdefault("binding_B", {"events_judged_by_TLC": 0, "unknown_overflow": 0, "tlc_states": 0,
                                          "tlc_wall_s": 0.0, "failing_events": 0})
    b["events_judged_by_TLC"] += len(verdicts)
    b["unknown_overflow"] += len(unknown)
    b["tlc_states"] += stats["states"]
    b["tlc_wall_s"] = round(b["tlc_wall_s"] + stats["wall_s"], 2)
    ev.states += stats["states"]
    ev.transitions += stats["generated"]
    ev.validated += len(verdicts)
    for e, tag in val.events:
        fails = verdicts.get(e["id"]) or []
        unk = [f for f in fails if f.startswith("?")]
        fails = [f for f in fails if not f.startswith("?")]
        if unk:
            b["unknown_clauses"] = b.get("unknown_clauses", 0) + len(unk)
        if fails:
            b["failing_events"] += 1
            rep.violation(event_key(e, fails), {"event": e, "clauses": fails, "transition": tag})
        else:
            ev.sample({"event": e["act"], "verdict": "accepted"}, limit=8)


def suite_trace(prop, tier, ev, rep, kinds, files):
    """Binding B over the repository's own tests: run them under the external recorder and let TLC judge
    every recorded public call (spec/TraceSuite.tla)."""
    import subprocess
    import tempfile
    from .trace import Validator
    fd, out = tempfile.mkstemp(prefix="verif_suite_", suffix=".ndjson")
    os.close(fd)
    env = dict(os.environ)
    env.update({"COMPMEC_NURBS_VERIF": "1", "VERIF_TRACE_OUT": out,
                "PYTHONPATH": os.path.join(core.REPO, "src") + os.pathsep + core.VERIF})
    cmd = [sys.executable, "-m", "pytest", "-q", "-p", "no:cacheprovider", "-p", "harness.recorder",
           "--timeout=900", "-x", "--co"] if False else \
          [sys.executable, "-m", "pytest", "-q", "-p", "no:cacheprovider", "-p", "harness.recorder", "--timeout=900"] + files
    try:
        proc = subprocess.run(cmd, cwd=core.REPO, env=env, stdout=subprocess.PIPE, stderr=subprocess.STDOUT, text=True,
                              timeout=1800)
        tail = proc.stdout.strip().splitlines()[-1] if proc.stdout.strip() else ""
        val = Validator("TraceSuite.tla", "TraceSuite.cfg")
        n = 0
        with open(out) as f:
            for line in f:
                e = json.loads(line)
                if e.get("kind") == "recorder_error":
                    raise core.MachineryError(f"recorder failed: {e}")
                if e["kind"] in kinds:
                    e.pop("id", None)
                    val.add_raw(e)
                    n += 1
    finally:
        if os.path.exists(out):
            os.unlink(out)
    if n == 0:
        raise core.MachineryError(f"the recorder produced no events ({tail})")
    verdicts, unknown, stats = val.run()
    b = ev.extra.setdefault("suite_trace", {"pytest": tail, "events_judged_by_TLC": 0, "ambiguous_rank_events": 0,
                                            "failing_events": 0, "by_call": {}})
    b["events_judged_by_TLC"] += len(verdicts)
    ev.states += stats["states"]
    ev.transitions += stats["generated"]
    ev.validated += len(verdicts)
    for e, _ in val.events:
        key = f"{e['kind']}.{e['name']}"
        b["by_call"][key] = b["by_call"].get(key, 0) + 1
        fails = verdicts.get(e["id"]) or []
        if any(f.startswith("?") for f in fails):
            b["ambiguous_rank_events"] += 1
        fails = [f for f in fails if not f.startswith("?")]
        if fails:
            b["failing_events"] += 1
            rep.violation(f"suite:{e['kind']}.{e['name']}:{'+'.join(sorted(fails))}", {"event": e, "clauses": fails})


def driver_kv(prop, tier, ev, rep, histories, steps):
    """seeded random KnotVector histories beyond the exhaustive universe, recorded from outside, judged by TraceSuite"""
    import subprocess
    import tempfile
    from .trace import Validator
    fd, out = tempfile.mkstemp(prefix="verif_drv_", suffix=".ndjson")
    os.close(fd)
    env = dict(os.environ)
    env["PYTHONPATH"] = os.path.join(core.REPO, "src") + os.pathsep + core.VERIF
    env["VERIF_REPO"] = core.REPO
    try:
        proc = subprocess.run([sys.executable, "-m", "harness.drivers", "kv", str(core.seed()), str(histories), str(steps), out],
                              cwd=core.VERIF, env=env, stdout=subprocess.PIPE, stderr=subprocess.STDOUT, text=True, timeout=1800)
        if proc.returncode != 0:
            raise core.MachineryError("KnotVector driver failed:\n" + proc.stdout[-2000:])
        val = Validator("TraceSuite.tla", "TraceSuite.cfg")
        with open(out) as f:
            for line in f:
                e = json.loads(line)
                if e.get("kind") == "recorder_error":
                    raise core.MachineryError(f"recorder failed: {e}")
                e.pop("id", None)
                val.add_raw(e)
    finally:
        if os.path.exists(out):
            os.unlink(out)
    verdicts, unknown, stats = val.run()
    b = ev.extra.setdefault("random_histories", {"histories": 0, "calls_judged_by_TLC": 0, "failing": 0})
    b["histories"] += histories
    b["calls_judged_by_TLC"] += len(verdicts)
    ev.states += stats["states"]
    ev.transitions += stats["generated"]
    ev.validated += len(verdicts)
    for e, _ in val.events:
        fails = [f for f in (verdicts.get(e["id"]) or []) if not f.startswith("?")]
        if fails:
            b["failing"] += 1
            rep.violation(f"driver:{e['kind']}.{e['name']}:{'+'.join(sorted(fails))}", {"event": e, "clauses": fails})


def driver_curves(prop, tier, ev, rep, histories, steps):
    """seeded random function-preserving Curve histories (insert / elevate / exact remove / clean / split+join)
    on larger inputs; every step is a SameFunction event judged by Trace.tla on observed values"""
    import random
    from . import drivers
    from .trace import Validator
    lib = core.import_lib()
    val = Validator()
    for h in range(histories):
        rng = random.Random(core.seed() * 7919 + h)
        drivers.curve_history(lib, rng, steps, val, rational=(h % 3 == 2))
    judge_events(ev, rep, val)
    ev.extra["random_curve_histories"] = ev.extra.get("random_curve_histories", 0) + histories


def driver_fn(prop, tier, ev, rep, count):
    import random
    from . import drivers
    from .trace import Validator
    lib = core.import_lib()
    val = Validator()
    drivers.fn_history(lib, random.Random(core.seed() * 31337 + 5), val, count)
    n0 = len(val.events)
    judge_events(ev, rep, val)
    ev.extra["function_history_evaluations"] = ev.extra.get("function_history_evaluations", 0) + n0


def driver_big(prop, tier, ev, rep, kind, count):
    """seeded random LARGER instances (degree up to 6, more knots) executed on the library and judged by TLC"""
    import random
    from . import drivers
    from .trace import Validator
    lib = core.import_lib()
    val = Validator()
    rng = random.Random(core.seed() * 104729 + hash(kind) % 1000)
    getattr(drivers, "big_" + kind)(lib, rng, val, count)
    n0 = len(val.events)
    judge_events(ev, rep, val)
    ev.extra["random_larger_instances"] = ev.extra.get("random_larger_instances", 0) + n0


def finish(ev, rep):
    code = rep.finish()
    ev.write()
    return code


# ------------------------------------------------------------------------------------ C03
def c03(tier):
    ev = Evidence("C03", tier, core.seed())
    rep = Reporter("C03", ev)
    cfg = "MC_KnotVector_quick.cfg" if tier == "quick" else "MC_KnotVector_thorough.cfg"
    model_replay("C03", tier, ev, rep, "MC_KnotVector.tla", cfg)
    # the same transitions on an order-isomorphic image of the numbers (interval 10^13 times the smallest knot gap)
    ORDER_ONLY = {"KvNew", "KvInsert", "KvRemove", "KvSetDegree", "KvIOr", "KvIAnd", "KvOr", "KvAnd", "KvSplit", "KvCopy", "KvEq"}
    model_replay_cached("C03", tier, ev, rep, "MC_KnotVector.tla", cfg, "stretch", {},
                        filt=lambda t: t["d"] == 1 and (t["act"]["name"] in ORDER_ONLY or (
                            t["act"]["name"] == "KvValueOp" and t["act"]["op"] in ("add_nodes", "sub_nodes"))))
    suite_trace("C03", tier, ev, rep, {"kv"}, ["tests/test_knotspace.py", "tests/test_splinecurve.py"] if tier == "quick" else [])
    driver_kv("C03", tier, ev, rep, 30 if tier == "quick" else 600, 25 if tier == "quick" else 40)
    ev.assumptions += ["knot values are exact rationals in this run (float behaviour: C16/C18)",
                       "bounded universe: see spec/MC_KnotVector*.cfg"]
    return finish(ev, rep)


def simple(prop, cfgs, assumptions=(), thorough_extra=()):
    def f(tier):
        ev = Evidence(prop, tier, core.seed())
        rep = Reporter(prop, ev)
        for module, cfg in list(cfgs) + (list(thorough_extra) if tier == "thorough" else []):
            c = cfg.replace("TIER", tier)
            if not os.path.exists(os.path.join(core.SPEC, c)):
                c = cfg.replace("TIER", "quick")
            model_replay(prop, tier, ev, rep, module, c)
        ev.assumptions += list(assumptions)
        return finish(ev, rep)
    return f


def oracle(ev, tier):
    """design-level theorems that tie the reference semantics down (MC_Oracle): a violation is a defect of the
    specification itself and is reported as a machinery failure"""
    res = run_tlc("MC_Oracle.tla", f"MC_Oracle_{tier}.cfg", timeout=3000)
    need_ok(res, "MC_Oracle")
    if res.violation:
        raise core.MachineryError("oracle theorem violated:\n" + res.violation[:3000])
    ev.add_tlc(res, f"MC_Oracle_{tier}.cfg (theorems: partition of unity, local support, Refine/Coarsen, union, reparametrisation, linearity, Java arithmetic)")


def with_oracle(prop, cfgs):
    inner = simple(prop, cfgs)

    def f(tier):
        ev = Evidence(prop, tier, core.seed())
        rep = Reporter(prop, ev)
        oracle(ev, tier)
        for module, cfg in cfgs:
            c = cfg.replace("TIER", tier)
            if not os.path.exists(os.path.join(core.SPEC, c)):
                c = cfg.replace("TIER", "quick")
            model_replay(prop, tier, ev, rep, module, c)
        if tier == "thorough" and prop == "C01":
            model_replay(prop, tier, ev, rep, "MC_Curve.tla", "MC_Curve_eval2_thorough.cfg")
        if prop == "C01":
            driver_big(prop, tier, ev, rep, "eval", 40 if tier == "quick" else 600)
        return finish(ev, rep)
    return f


c01 = with_oracle("C01", [("MC_Curve.tla", "MC_Curve_eval_TIER.cfg"), ("MC_Curve.tla", "MC_Curve_wide_eval_quick.cfg")])
def c02(tier):
    ev = Evidence("C02", tier, core.seed())
    rep = Reporter("C02", ev)
    model_replay("C02", tier, ev, rep, "MC_Curve.tla", f"MC_Curve_basis_{tier}.cfg")
    model_replay("C02", tier, ev, rep, "MC_Curve.tla", "MC_Curve_wide_basis_quick.cfg")
    # float knots at 2^20 with spans of 2^-10 (dyadic knots and parameters: the float input is the exact input)
    from .replay import dyadic
    model_replay_cached("C02", tier, ev, rep, "MC_Curve.tla", "MC_Curve_basis_quick.cfg", "far-float", {},
                        filt=lambda t: t["d"] == 1 and t["act"]["name"] == "FnBasis" and dyadic(t["act"]["u"]) and
                        all(dyadic(x) for x in t["pre"]["a"]["U"]))
    driver_big("C02", tier, ev, rep, "basis", 40 if tier == "quick" else 600)
    driver_fn("C02", tier, ev, rep, 60 if tier == "quick" else 1500)
    return finish(ev, rep)
def c04(tier):
    ev = Evidence("C04", tier, core.seed())
    rep = Reporter("C04", ev)
    res = model_replay("C04", tier, ev, rep, "MC_Curve.tla", f"MC_Curve_insert_{tier}.cfg")
    near_knot_insertions("C04", ev, rep, res.records, limit=150 if tier == "quick" else 2000)
    model_replay("C04", tier, ev, rep, "MC_Curve.tla", "MC_Curve_wide_insert_quick.cfg")
    if tier == "thorough":
        model_replay("C04", tier, ev, rep, "MC_Curve.tla", "MC_Curve_insert2_thorough.cfg")
    return finish(ev, rep)
c05 = simple("C05", [("MC_Curve.tla", "MC_Curve_remove_TIER.cfg"), ("MC_Curve.tla", "MC_Curve_remove_narrow_quick.cfg")])
def c06(tier):
    ev = Evidence("C06", tier, core.seed())
    rep = Reporter("C06", ev)
    model_replay("C06", tier, ev, rep, "MC_Curve.tla", f"MC_Curve_elevate_{tier}.cfg")
    model_replay("C06", tier, ev, rep, "MC_Curve.tla", "MC_Curve_wide_elevate_quick.cfg")
    model_replay("C06", tier, ev, rep, "MC_Curve.tla", f"MC_Curve_decrease_{tier}.cfg")
    driver_big("C06", tier, ev, rep, "elevate", 11 if tier == "quick" else 200)
    return finish(ev, rep)
def c07(tier):
    ev = Evidence("C07", tier, core.seed())
    rep = Reporter("C07", ev)
    res = model_replay("C07", tier, ev, rep, "MC_Curve.tla", f"MC_Curve_split_{tier}.cfg")
    near_knot_insertions("C07", ev, rep, res.records, limit=100 if tier == "quick" else 2000)
    model_replay("C07", tier, ev, rep, "MC_Curve.tla", "MC_Curve_wide_split_quick.cfg", vector=(tier == "thorough"))
    model_replay("C07", tier, ev, rep, "MC_Curve.tla", f"MC_Curve_join_{tier}.cfg")
    return finish(ev, rep)
def c08(tier):
    ev = Evidence("C08", tier, core.seed())
    rep = Reporter("C08", ev)
    model_replay("C08", tier, ev, rep, "MC_Curve.tla", f"MC_Curve_arith_{tier}.cfg")
    driver_big("C08", tier, ev, rep, "arith", 25 if tier == "quick" else 300)
    return finish(ev, rep)


def c13(tier):
    ev = Evidence("C13", tier, core.seed())
    rep = Reporter("C13", ev)
    model_replay("C13", tier, ev, rep, "MC_Curve.tla", f"MC_Curve_eq_{tier}.cfg")
    driver_big("C13", tier, ev, rep, "arith", 25 if tier == "quick" else 300)
    return finish(ev, rep)
def c14(tier):
    ev = Evidence("C14", tier, core.seed())
    rep = Reporter("C14", ev)
    model_replay("C14", tier, ev, rep, "MC_Curve.tla", f"MC_Curve_clean_{tier}.cfg")
    model_replay("C14", tier, ev, rep, "MC_Curve.tla", "MC_Curve_wide_clean_quick.cfg")
    driver_curves("C14", tier, ev, rep, 12 if tier == "quick" else 300, 8 if tier == "quick" else 14)
    return finish(ev, rep)
def c09(tier):
    ev = Evidence("C09", tier, core.seed())
    rep = Reporter("C09", ev)
    model_replay("C09", tier, ev, rep, "MC_Curve.tla", f"MC_Curve_deriv_{tier}.cfg")
    model_replay("C09", tier, ev, rep, "MC_Curve.tla", "MC_Curve_wide_calc_quick.cfg")
    # degree 1-2 with up to 9 control points: every multiplicity pattern on two interior breaks, both at p + 1 included
    model_replay("C09", tier, ev, rep, "MC_Curve.tla", "MC_Curve_deriv_disc_quick.cfg")
    # the same curves with plain Python ints for every integral knot, point and weight (values to 1e-9)
    model_replay_cached("C09", tier, ev, rep, "MC_Curve.tla", "MC_Curve_deriv_quick.cfg", "int-knots", {}, stride=2 if tier == "quick" else 1)
    return finish(ev, rep)
def high_degree_fit_crossmode(prop, ev, rep):
    """fit_curve for degrees 5..7 with different interior breaks in source and target.  The exact L2 integrals of such
    products (degree up to 14) are beyond the closed Newton-Cotes constants of Approx.tla (degree <= 9), so there is no
    TLC oracle here; what remains decidable is C16's claim for this operation: the Fraction code path (open Newton-Cotes)
    and the float code path (Chebyshev) compute the same projection.  Both are exact quadratures when they use enough
    nodes; a shortage of nodes in either shows as a disagreement far above rounding."""
    lib = core.import_lib()
    n = 0
    for ps, pt, bs, bt in ((6, 7, 1, 2), (7, 7, 1, 2), (7, 6, 2, 1), (5, 7, 2, 1), (7, 5, 1, 2)):
        Us = [0] * (ps + 1) + [bs] + [3] * (ps + 1)
        Ut = [0] * (pt + 1) + [bt] + [3] * (pt + 1)
        P = [((i * 7) % 5) - 2 + Fraction(i % 3, 2) for i in range(ps + 2)]
        res = {}
        for name, cv in (("Fraction", Fraction), ("float", float)):
            C = lib.Curve(lib.KnotVector([cv(x) for x in Us]), [cv(x) for x in P])
            S = lib.Curve(lib.KnotVector([cv(x) for x in Ut]))
            try:
                err = S.fit_curve(C)
                res[name] = ([float(x) for x in S.ctrlpoints], float(err))
            except Exception as e:
                res[name] = f"{type(e).__name__}: {e}"
        n += 1
        a, b = res["Fraction"], res["float"]
        t = {"act": {"name": "CvFitCurve", "obj": "a", "nodes": [], "other": {"U": [[x, 1] for x in Us], "P": [core.rat(x) for x in P], "W": []}},
             "pre": {"a": {"kind": "cv", "U": [[x, 1] for x in Ut], "P": [[0, 1]] * (pt + 2), "W": []}}, "d": 1,
             "ret": {"class": "ok", "val": [], "rel": "sem"}, "post": {}}
        if isinstance(a, str) or isinstance(b, str):
            rep.violation("highdegree-fit:raised", {"transition": t, "mode": "float", "failures": [f"degree {ps} -> {pt}: Fraction data: {a}; float data: {b}"]})
            continue
        scale = max(1.0, max(abs(x) for x in a[0]))
        bad = [i for i, (x, y) in enumerate(zip(a[0], b[0])) if abs(x - y) > 1e-6 * scale]
        if bad or abs(a[1] - b[1]) > 1e-6 * max(1.0, abs(a[1])):
            rep.violation("highdegree-fit:Fraction and float code paths disagree", {"transition": t, "mode": "float", "failures": [
                f"degree {ps} -> {pt}: control points {a[0]} vs {b[0]}, errors {a[1]!r} vs {b[1]!r}"]})
    ev.validated += n
    ev.extra["high_degree_fits_compared_between_number_types"] = n


def c11(tier):
    ev = Evidence("C11", tier, core.seed())
    rep = Reporter("C11", ev)
    model_replay("C11", tier, ev, rep, "MC_Curve.tla", f"MC_Curve_fitcurve_{tier}.cfg")
    model_replay("C11", tier, ev, rep, "MC_Curve.tla", "MC_Curve_fitcurve_gap_quick.cfg")
    model_replay("C11", tier, ev, rep, "MC_Curve.tla", "MC_Curve_fitcurve_bezier_quick.cfg", vector=False)
    high_degree_fit_crossmode("C11", ev, rep)
    return finish(ev, rep)
def default_nodes_equivariant(ev, rep, records):
    """fit_points(points) without nodes, FLOAT knots: the default nodes are irrational (Chebyshev), so TLC cannot hold
    them; what the specification fixes (Sem.tla, FitPointsClauses: default nodes = umin + (umax-umin) * t_k with t_k a
    fixed distribution on [0, 1]) implies that the fitted control points do not change when the knot vector is shifted
    and scaled (C18: basis functions are invariant under reparametrisation).  The same data are fitted on four affine
    images of the knot vector - intervals starting at 0, at 1, at the original umin, and shrunk - and must agree."""
    lib = core.import_lib()
    n = 0
    for t in records:
        a = t["act"]
        if a["name"] != "CvFitPoints" or not a.get("dflt") or t["ret"]["class"] != "ok" or t.get("ovf"):
            continue
        pre = t["pre"][a["obj"]]
        U = [float(fr(x)) for x in pre["U"]]
        data = [float(fr(x)) for x in a["data"]]
        W = [float(fr(w)) for w in pre["W"]] or None
        res = []
        for k, s in ((1.0, 0.0), (1.0, 1.0 - U[0]), (0.5, 3.0), (2.0, -2.0 * U[0])):
            c = lib.Curve(lib.KnotVector([k * u + s for u in U]))
            if W:
                c.weights = list(W)
            try:
                c.fit_points(list(data))
                res.append((k, s, [float(x) for x in c.ctrlpoints]))
            except Exception as e:
                res.append((k, s, f"{type(e).__name__}: {e}"))
        n += 1
        ref = res[0][2]
        bad = [r for r in res[1:] if isinstance(r[2], str) != isinstance(ref, str) or (not isinstance(ref, str) and (
            len(r[2]) != len(ref) or any(abs(x - y) > 1e-8 * max(1.0, max(map(abs, ref))) for x, y in zip(r[2], ref))))]
        if bad:
            rep.violation("CvFitPoints:default nodes, float knots: result depends on where the interval lies",
                          {"transition": t, "mode": "float", "failures": [
                              f"knots u -> {k}*u + {s}: control points {q}, on the original knots {ref}" for k, s, q in bad]})
    ev.validated += n
    ev.extra["default_node_fits_compared_over_affine_images"] = n


def near_knot_insertions(prop, ev, rep, records, limit=150):
    """knot_insert / split at a node 1e-10 beside an existing knot (a legal node: the property quantifies over all
    nodes of the interval; float round-off produces such nodes, 0.1 + 0.2 beside 0.3).  TLC cannot hold the new knot
    (32-bit integers), so the result is observed on the sample points of the OLD spans and TLC compares those values
    with Eval of the old curve (event SameOnSpans); the new knot vector is compared here, exactly."""
    from .trace import Validator
    from .replay import strip_curve, rat
    lib = core.import_lib()
    r = Replayer(lib, "fraction")
    val = Validator()
    seen, n = set(), 0
    eps = Fraction(1, 10 ** 10)

    def repeated_first(t):      # curves with a repeated interior knot first: the quick tier's budget must reach them
        U = t["pre"].get(t["act"].get("obj"), {}).get("U") or []
        inner = [json.dumps(x) for x in U if x != U[0] and x != U[-1]]
        return 0 if len(inner) != len(set(inner)) else 1
    for t in sorted(records, key=repeated_first):
        a = t["act"]
        if a["name"] not in ("CvKnotInsert", "CvSplit") or t["d"] != 1 or t.get("ovf"):
            continue
        pre = t["pre"][a["obj"]]
        key = json.dumps(pre, sort_keys=True)
        if key in seen or len(seen) >= limit:
            continue
        seen.add(key)
        U = [fr(x) for x in pre["U"]]
        deg = r._deg(pre["U"])
        if deg < 1:
            continue
        ks = sorted(set(U))
        samples = r._sample_pts([pre["U"]], deg)
        for k in ks[1:-1]:
            if U.count(k) > deg:
                continue
            for nodes in ([k - eps], [k + eps], [k + eps, k - eps], [(ks[0] + ks[1]) / 2, k - eps]):
                c = r.build_obj(pre)
                what = f"{a['name']} at {[str(x) for x in nodes]}"
                try:
                    if a["name"] == "CvKnotInsert":
                        c.knot_insert(list(nodes))
                        pieces = [c]
                        if sorted(U + list(nodes)) != [Fraction(x) for x in c.knotvector]:
                            rep.violation("near-knot:knot vector is not the sorted union", {"transition": t, "failures": [
                                f"{what}: knot vector {[str(x) for x in c.knotvector]}"], "mode": "fraction"})
                            continue
                    else:
                        pieces = c.split(sorted(nodes))
                    dv = []
                    for u in samples:
                        piece = [p for p in pieces if p.knotvector.limits[0] <= u <= p.knotvector.limits[1]]
                        # a sample on a cut belongs to the piece on its right (values are right-continuous), the last one excepted
                        q = piece[-1]
                        v = q(u)
                        if isinstance(v, float):
                            raise TypeError(f"float value {v!r} from exact data")
                        dv.append([rat(u), rat(v) if core.fits32(rat(v)) else [0, 0]])
                except Exception as e:
                    rep.violation("near-knot:raised", {"transition": t, "failures": [f"{what}: {type(e).__name__}: {e}"], "mode": "fraction"})
                    continue
                n += 1
                val.add({"name": "SameOnSpans", "deg": deg, "op": what}, c=strip_curve(pre), dv=dv, tag=t)
    if val.events:
        verdicts, unknown, stats = val.run()
        ev.states += stats["states"]
        for e, tag in val.events:
            fails = [f for f in (verdicts.get(e["id"]) or []) if not f.startswith("?")]
            if fails:
                rep.violation("near-knot:" + ",".join(fails), {"event": e, "clauses": fails, "transition": tag, "mode": "fraction",
                                                               "failures": [f"{e['act']['op']}: {fails}"]})
    ev.validated += n
    ev.extra["near_knot_operations_judged"] = ev.extra.get("near_knot_operations_judged", 0) + n


def c12(tier):
    ev = Evidence("C12", tier, core.seed())
    rep = Reporter("C12", ev)
    res = model_replay("C12", tier, ev, rep, "MC_Curve.tla", f"MC_Curve_fitpoints_{tier}.cfg")
    default_nodes_equivariant(ev, rep, res.records)
    return finish(ev, rep)
c17 = simple("C17", [("MC_KnotVector.tla", "MC_KvUnion_TIER.cfg"), ("MC_KnotVector.tla", "MC_KvUnion5_quick.cfg")],
             thorough_extra=[("MC_KnotVector.tla", "MC_KvUnion6_thorough.cfg")])
c19 = simple("C19", [("MC_Misc.tla", "MC_Misc_project_TIER.cfg")])
c20 = simple("C20", [("MC_Misc.tla", "MC_Misc_intersect_TIER.cfg")])

def c10(tier):
    """quadrature: memo machine (history independence), exactness of the rules, spline integrals"""
    import math
    from fractions import Fraction
    from .trace import Validator
    ev = Evidence("C10", tier, core.seed())
    rep = Reporter("C10", ev)
    lib = core.import_lib()
    # (a) memo machine: every call order up to the depth bound, on import-time tables
    cfg = f"MC_Misc_memo_{tier}.cfg"
    res = run_tlc("MC_Misc.tla", cfg)
    need_ok(res, cfg)
    if res.violation:
        raise core.MachineryError(res.violation[:2000])
    ev.add_tlc(res, cfg)
    r = Replayer(lib, "fraction")
    r.enable_memo_reset()
    ev.extra["memo_tables_reachable"] = r._memo_init is not None

    def on_fail(t, fails):
        rep.violation(fail_key(t, fails) + ":" + t["act"]["fn"], {"transition": t, "failures": fails, "model": "MC_Misc.tla", "cfg": cfg})
    ev.validated += replay_all(res.records, r, on_fail, sample=lambda t: ev.sample(short(t)))
    # (b) exactness of the rules the code returns, judged by TLC (rational families) / numerically (irrational)
    import compmec.nurbs.heavy as heavy
    val = Validator()
    nmax = 6 if tier == "quick" else 9
    for n in range(1, nmax + 1):
        for fam, nodes, wts, order in (("closed", heavy.NodeSample.closed_linspace, heavy.IntegratorArray.closed_newton_cotes, n),
                                       ("open", heavy.NodeSample.open_linspace, heavy.IntegratorArray.open_newton_cotes, n)):
            if fam == "closed" and n < 2:
                continue
            try:
                xs, ws = nodes(n), wts(n)
            except Exception as e:
                rep.violation(f"Rule/{fam}:raised", {"family": fam, "n": n, "error": repr(e)})
                continue
            try:
                val.add({"name": "Rule", "family": fam, "n": n, "xs": core.rats(xs), "ws": core.rats(ws), "order": order})
            except TypeError as e:
                rep.violation(f"Rule/{fam}:inexact", {"family": fam, "n": n, "error": str(e)})
    judge_events(ev, rep, val)
    numeric = 0
    for n in range(1, (8 if tier == "quick" else 14) + 1):
        for fam, nodes, wts, order in (("chebyshev", heavy.NodeSample.chebyshev, heavy.IntegratorArray.chebyshev, n),
                                       ("gauss", heavy.NodeSample.gauss_legendre, heavy.IntegratorArray.gauss_legendre, 2 * n)):
            try:
                xs = [float(x) for x in nodes(n)]
                ws = [float(w) for w in wts(n)]
            except Exception as e:
                rep.violation(f"Rule/{fam}:raised", {"family": fam, "n": n, "error": repr(e)})
                continue
            numeric += 1
            bad = []
            if len(xs) != n or len(ws) != n:
                bad.append("length")
            if any(not (0 <= x <= 1) for x in xs) or any(a >= b for a, b in zip(xs, xs[1:])):
                bad.append("nodes_increasing_in_01")
            if abs(sum(ws) - 1) > 1e-9:
                bad.append("weights_sum_1")
            for k in range(order):
                if abs(math.fsum(w * x ** k for x, w in zip(xs, ws)) - 1 / (k + 1)) > 1e-9:
                    bad.append(f"moment_{k}")
                    break
            if bad:
                rep.violation(f"Rule/{fam}:{'+'.join(bad)}", {"family": fam, "n": n, "nodes": xs, "weights": ws, "failed": bad})
    ev.extra["irrational_rules_checked_numerically"] = numeric
    driver_big("C10", tier, ev, rep, "integ", 30 if tier == "quick" else 400)
    # (c) spline integrals, Integrate.function on monomials, polyline length
    for module, c in (("MC_Curve.tla", f"MC_Curve_integ_{tier}.cfg"), ("MC_Misc.tla", "MC_Misc_length_quick.cfg")):
        model_replay("C10", tier, ev, rep, module, c)
    ev.assumptions += ["Chebyshev / Gauss-Legendre nodes are irrational: their moment equations are checked in floating point "
                       "(1e-9) by the harness, not inside TLC; history independence of all families is checked on exact values"]
    return finish(ev, rep)


def c18(tier):
    """generators, affine maps"""
    import numpy as np
    from fractions import Fraction
    from .trace import Validator
    ev = Evidence("C18", tier, core.seed())
    rep = Reporter("C18", ev)
    lib = core.import_lib()
    for mode in ("fraction", "float", "int"):
        model_replay("C18", tier, ev, rep, "MC_Misc.tla", f"MC_Misc_gen_{tier}.cfg", mode=mode, label=f"gen[{mode}]",
                     filt=(lambda t: True) if mode != "int" else (lambda t: t["act"]["kind"] in ("bezier", "integer", "weight")))
    # affine maps + reparametrisation invariance of the basis: KnotVector machine restricted to shift/scale/normalize,
    # then the basis on the mapped vector (spec theorem ReparamInvariant ties it to the basis on the original one)
    res_aff = model_replay("C18", tier, ev, rep, "MC_KnotVector.tla", f"MC_KvAffine_{tier}.cfg")
    # the same shifts and scalings on the vectors multiplied by 1e-10 and by 1e13 (exact Fractions): an affine map of an
    # affine image is the affine image of the map, whatever the size of the numbers (the knot gaps drop below the 1e-9
    # of the library's multiplicity count in the first case: only the element lists are compared there, no queries)
    nmicro = 0
    for S in (Fraction(1, 10 ** 10), Fraction(10 ** 13)):
        for t in res_aff.records:
            a = t["act"]
            if t["d"] != 1 or t["ret"]["class"] != "ok" or a["name"] not in ("KvShift", "KvScale", "KvValueOp"):
                continue
            if a["name"] == "KvValueOp" and a["op"] in ("add_nodes", "sub_nodes"):
                continue
            U = [S * fr(x) for x in t["pre"][a["obj"]]["U"]]
            by = fr(a["by"])
            want_spec = t["post"][a["obj"]]["U"] if a["name"] != "KvValueOp" else t["ret"]["val"]
            want = [S * fr(x) for x in want_spec]
            kv = lib.KnotVector(list(U))
            nmicro += 1
            try:
                if a["name"] == "KvShift":
                    r = kv.shift(S * by)
                elif a["name"] == "KvScale":
                    r = kv.scale(by)
                else:
                    op = a["op"]
                    r = {"add": lambda: kv + S * by, "sub": lambda: kv - S * by, "mul": lambda: kv * by,
                         "rmul": lambda: by * kv, "div": lambda: kv / by}[op]()
                got = [Fraction(x) for x in r]
            except Exception as e:
                rep.violation(f"scaled-vector:{a['name']}:raised", {"transition": t, "mode": "fraction", "failures": [
                    f"knots multiplied by {S}: {type(e).__name__}: {e}"]})
                continue
            if got != want:
                rep.violation(f"scaled-vector:{a['name']}:result", {"transition": t, "mode": "fraction", "failures": [
                    f"knots multiplied by {S}: got {[str(x) for x in got]}, expected {[str(x) for x in want]}"]})
    ev.validated += nmicro
    ev.extra["affine_maps_on_vectors_scaled_by_1e-10_and_1e13"] = nmicro
    # random(): every draw is captured and handed to TLC as the witness of the existential
    val = Validator()
    rng_seed = core.seed()
    np.random.seed(rng_seed % (2 ** 32))
    G = lib.GeneratorKnotVector
    real_randint = np.random.randint
    count = 40 if tier == "quick" else 400
    for i in range(count):
        p = i % 4
        n = p + 1 + (i // 4) % 4
        drawn = []

        def spy(*a, **k):
            r = real_randint(*a, **k)
            drawn.append([int(x) for x in np.atleast_1d(r)])
            return r
        np.random.randint = spy
        try:
            kv = G.random(p, n, Fraction)
        except Exception as e:
            rep.violation("KvRandom:raised", {"p": p, "n": n, "error": repr(e)})
            continue
        finally:
            np.random.randint = real_randint
        if len(drawn) != 1:
            raise core.MachineryError("random() no longer draws once through numpy.random.randint")
        try:
            U = core.rats(list(kv))
        except TypeError as e:
            rep.violation("KvRandom:inexact", {"p": p, "n": n, "error": str(e), "vector": [str(x) for x in kv]})
            continue
        val.add({"name": "KvRandom", "p": p, "n": n, "w": [[x, 1] for x in drawn[0]]}, d={"U": U, "P": [], "W": []})
        try:
            kvf = G.random(p, n)  # default float class: limits must be exactly (0.0, 1.0)
        except Exception as e:
            rep.violation("KvRandom/float:raised", {"p": p, "n": n, "error": repr(e)})
            continue
        if tuple(kvf.limits) != (0.0, 1.0) or kvf.degree != p or kvf.npts != n:
            rep.violation("KvRandom/float:limits_exactly_01", {"p": p, "n": n, "limits": [repr(x) for x in kvf.limits]})
    judge_events(ev, rep, val)
    # float normalize(): a rounding claim TLC cannot see but the spec states (limits exactly 0 and 1)
    rnd = np.random.RandomState(rng_seed % (2 ** 32))
    bad = 0
    trials = 2000 if tier == "quick" else 50000
    for i in range(trials):
        p = int(rnd.randint(0, 4))
        k = int(rnd.randint(0, 4))
        lo = float(rnd.uniform(-10, 10))
        inner = sorted(lo + float(x) for x in rnd.uniform(0.1, 7, k + 1))
        vec = [lo] * (p + 1) + inner[:-1] + [inner[-1]] * (p + 1)
        try:
            kv = lib.KnotVector(vec)
            kv.normalize()
        except Exception as e:
            bad += 1
            if bad <= 3:
                rep.violation("KvNormalize/float:raised", {"vector": [repr(x) for x in vec], "error": repr(e)})
            continue
        if tuple(kv.limits) != (0.0, 1.0) or kv.degree != p or kv.npts != p + 1 + k:
            bad += 1
            if bad <= 3:
                rep.violation("KvNormalize/float:limits_exactly_01",
                              {"vector": [repr(x) for x in vec], "limits": [repr(x) for x in kv.limits]})
    ev.extra["float_normalize_trials"] = trials
    ev.validated += trials
    return finish(ev, rep)


def c15(tier):
    ev = Evidence("C15", tier, core.seed())
    rep = Reporter("C15", ev)
    model_replay("C15", tier, ev, rep, "MC_Machine.tla", f"MC_Machine_{tier}.cfg")
    model_replay("C15", tier, ev, rep, "MC_Curve.tla", "MC_Curve_misc_quick.cfg")
    # the caller's own numpy arrays (control points of 2-D curves) are values too: no operation may change them in place
    from .vector import vector_replay
    lib = core.import_lib()
    na = 0
    for cfg in (("MC_Curve_insert_quick.cfg", "MC_Curve_elevate_quick.cfg") if tier == "quick" else
                ("MC_Curve_insert_quick.cfg", "MC_Curve_elevate_quick.cfg", "MC_Curve_split_quick.cfg", "MC_Curve_remove_quick.cfg")):
        res = run_tlc("MC_Curve.tla", cfg)
        need_ok(res, cfg)
        ev.add_tlc(res, cfg + " (2-D pairs: caller's arrays unchanged)")
        recs = [t for t in res.records if t["d"] == 1 and t["pre"].get("a", {}).get("W")][:: 1 if tier == "thorough" else 3]
        na += vector_replay(recs, lib, lambda t, fails: rep.violation("caller's arrays:" + t["act"]["name"], {
            "transition": {k: v for k, v in t.items() if k != "_pair"}, "pair": t.get("_pair"), "failures": fails,
            "mode": "fraction, 2-D points", "cfg": cfg}), arrays_only=True)
    ev.validated += na
    ev.extra["calls_checked_for_in_place_changes_of_the_callers_arrays"] = na
    suite_trace("C15", tier, ev, rep, {"cv"}, ["tests/test_splinecurve.py", "tests/test_rationalcurve.py",
                                                "tests/test_beziercurve.py"] if tier == "quick" else [])
    return finish(ev, rep)


def c16(tier):
    """number-representation refinement (Binding C): the same TLC-generated scenarios, replayed with the data
    given as int / float / numpy.float64; the exact spec state is the oracle (1e-9 relative).  Fraction mode
    (all other checks) already asserts that no float appears in any result."""
    ev = Evidence("C16", tier, core.seed())
    rep = Reporter("C16", ev)
    scen = [("MC_Curve.tla", "MC_Curve_eval_quick.cfg"), ("MC_Curve.tla", "MC_Curve_basis_quick.cfg"),
            ("MC_Curve.tla", "MC_Curve_insert_quick.cfg"), ("MC_Curve.tla", "MC_Curve_elevate_quick.cfg"),
            ("MC_Curve.tla", "MC_Curve_split_quick.cfg"), ("MC_Curve.tla", "MC_Curve_integ_quick.cfg"),
            ("MC_Curve.tla", "MC_Curve_remove_quick.cfg"), ("MC_Curve.tla", "MC_Curve_decrease_quick.cfg"),
            ("MC_Curve.tla", "MC_Curve_join_quick.cfg")]
    if tier == "quick":
        scen = scen[:6] + [scen[8]]
    modes = ["float", "numpy.float64", "int", "fraction"] if tier == "thorough" else ["float", "numpy.float64", "int"]
    cache = {}
    for module, cfg in scen:
        for mode in modes:
            big = any(k in cfg for k in ("insert", "split"))   # the two largest instances: every 2nd / 3rd transition
            # (an exact removal leaves a rounding-size error in floats: whether a tolerance of 0 or 1e-30 accepts it is
            # no claim of the property; those transitions are replayed with exact numbers only)
            tiny_tol = lambda t: t["act"].get("tol", ["default"])[0] == "e" or t["act"].get("tol") == ["q", 0, 1]
            model_replay_cached("C16", tier, ev, rep, module, cfg, mode, cache,
                                filt=None if mode in ("int", "fraction") else (lambda t: not tiny_tol(t)),
                                stride=1 if tier != "quick" else (3 if mode == "numpy.float64" else 2) if big else
                                (2 if mode == "numpy.float64" else 1))
    # a minimal user-defined point type (point + point, scalar * point only): evaluation, insertion, elevation, splitting
    for module, cfg in scen[:5]:
        if "basis" in cfg:
            continue
        model_replay_cached("C16", tier, ev, rep, module, cfg, "minimal-point", cache,
                            filt=lambda t: not t["pre"].get("a", {}).get("W") and t["act"]["name"] != "CvSplitJoin",
                            stride=3 if tier == "quick" else 1)   # (joining is not among the operations promised for minimal point types)
    # huge rationals (80-bit numerators and denominators) through an affine reparametrisation and a scaling of the points
    for module, cfg in scen[:5]:
        if "basis" in cfg:
            continue
        model_replay_cached("C16", tier, ev, rep, module, cfg, "huge", cache, stride=4 if tier == "quick" else 1)
    # "fitting returns ... the mathematically exact result": Bezier fits of degree 6-7 and 13-14 against the closed-form
    # Bernstein normal equations computed by TLC
    model_replay("C16", tier, ev, rep, "MC_Curve.tla", "MC_Curve_fitcurve_bezier_quick.cfg", vector=False)
    # plain Python ints for every integral number (knots too): values to 1e-9, whatever the types
    for module, cfg in scen[:6] + [("MC_Curve.tla", "MC_Curve_deriv_quick.cfg")]:
        model_replay_cached("C16", tier, ev, rep, module, cfg, "int-knots", cache, stride=3 if tier == "quick" else 1)
    # float knots at 2^20 with spans of 2^-10 (dyadic knots and parameters only: the float input is the exact input)
    from .replay import dyadic
    for module, cfg in (scen[0], scen[1]):
        model_replay_cached("C16", tier, ev, rep, module, cfg, "far-float", cache,
                            filt=lambda t: t["d"] == 1 and all(dyadic(x) for x in t["pre"]["a"]["U"]) and (
                                (t["act"]["name"] == "FnBasis" and dyadic(t["act"]["u"])) or
                                (t["act"]["name"] == "CvEval" and t["ret"]["class"] == "ok" and all(dyadic(x) for x in t["act"]["nodes"]))))
    # rational curves written with weights of size 1e-12 (exact): same curves, same results up to that scale
    for module, cfg in scen[:5]:
        model_replay_cached("C16", tier, ev, rep, module, cfg, "tiny-weights", cache,
                            filt=lambda t: bool(t["pre"].get("a", {}).get("W")), stride=3 if tier == "quick" else 1)
    # operations whose result the spec does not pin down (forced removal / reduction, lossy fitting): the SAME
    # TLC-generated call is executed with Fraction data and with float data and the two results are compared
    for module, cfg in [("MC_Curve.tla", "MC_Curve_remove_quick.cfg"), ("MC_Curve.tla", "MC_Curve_decrease_quick.cfg"),
                        ("MC_Curve.tla", "MC_Curve_fitcurve_quick.cfg"), ("MC_Curve.tla", "MC_Curve_fitpoints_quick.cfg"),
                        ("MC_Curve.tla", "MC_Curve_arith_quick.cfg"), ("MC_Curve.tla", "MC_Curve_join_quick.cfg")]:
        cross_mode(ev, rep, module, cfg, cache, limit=400 if tier == "quick" else None)
    ev.assumptions += ["float modes compare with the exact spec value to 1e-9 relative on the small, well-conditioned universe",
                       "relationally specified results (tolerance-guarded removal etc.) are judged only in exact mode"]
    return finish(ev, rep)


def cross_mode(ev, rep, module, cfg, cache, limit=None):
    """same call, Fraction data vs float data: equal outcome => equal result (1e-7 relative: these are
    least-squares solves), for the transitions whose result is judged relationally (rel = sem)"""
    from .replay import _paths, state_key
    key = (module, cfg)
    if key not in cache:
        res = run_tlc(module, cfg)
        need_ok(res, cfg)
        ev.add_tlc(res, cfg)
        cache[key] = res
    res = cache[key]
    lib = core.import_lib()
    rx, rf = Replayer(lib, "fraction"), Replayer(lib, "float")
    recs = [t for t in res.records if t["ret"].get("rel") == "sem" and t["d"] == 1 or
            (t["ret"].get("rel") == "sem" and t["act"]["name"] in ("CvKnotRemove", "CvDegreeDecrease"))]
    if limit:
        recs = recs[:: max(1, len(recs) // limit)]
    n = 0
    for t in recs:
        a = t["act"]
        if a["name"] not in ("CvKnotRemove", "CvDegreeDecrease", "CvFitCurve", "CvFitInRational", "CvFitPoints",
                             "CvArith", "CvScalar", "CvJoin"):
            continue
        if a["name"] == "CvFitPoints" and a.get("dflt"):
            continue  # default nodes are a different distribution for Fraction and for float knots (closed / Chebyshev)
        if a["name"] == "CvFitCurve" and (t["pre"][a["obj"]]["W"] or a["other"]["W"]):
            # the L2 projection onto / of a RATIONAL space needs integrals of rational functions, which the library
            # approximates by quadrature (open Newton-Cotes for Fractions, Chebyshev for floats): outside the source
            # lying in the space (CvFitInRational, compared below) the two rules legitimately disagree
            continue
        if a.get("tol", ["none"])[0] != "none" and a["name"] != "CvFitCurve":
            continue  # tolerance decisions near the threshold may legitimately differ between number types
        lx, lf = rx.build(t["pre"]), rf.build(t["pre"])
        cx, vx, ex = rx.execute(lx, a)
        cf, vf, ef = rf.execute(lf, a)
        n += 1
        if cx != "ok" or cf != "ok":
            if cx != cf:
                rep.violation(f"crossmode:{a['name']}:outcome", {"transition": t, "failures": [f"Fraction data: {cx} ({ex}), float data: {cf} ({ef})"], "mode": "float"})
            continue
        if a["name"] == "CvArith" and not t["pre"][a["obj"]]["W"] and not a["other"]["W"]:
            # the same operands with Python-int control points of size 1e10 (all points times one big integer): the
            # result is the exact multiple; 64-bit integer arrays would wrap silently
            import math
            A, B = lx[a["obj"]], rx.curve_from(a["other"])
            dens = [Fraction(p).denominator for p in list(A.ctrlpoints) + list(B.ctrlpoints)]
            for K in (math.lcm(*dens), (3 * 10 ** 9 + 7) * math.lcm(*dens)):
              try:
                  Ab = lib.Curve(A.knotvector, [int(Fraction(p) * K) for p in A.ctrlpoints])
                  Bb = lib.Curve(B.knotvector, [int(Fraction(p) * K) for p in B.ctrlpoints])
                  op = a["op"]
                  rb = {"add": lambda: Ab + Bb, "sub": lambda: Ab - Bb, "mul": lambda: Ab * Bb, "div": lambda: Ab / Bb}[op]()
                  factor = {"add": K, "sub": K, "mul": K * K, "div": 1}[op]
                  ks = sorted({Fraction(v) for v in vx["curve"].knotvector.knots})
                  badb = []
                  for lo, hi in zip(ks[:-1], ks[1:]):
                      u = lo + (hi - lo) * Fraction(2, 5)
                      x, y = vx["curve"](u), rb(u)
                      if isinstance(y, float) or Fraction(y) != Fraction(x) * factor:
                          badb.append(f"at u = {u}: {y!r}, exact multiple {Fraction(x) * factor}")
                  if badb:
                      rep.violation(f"crossmode:{a['name']}:big Python-int control points", {"transition": t, "mode": "int", "failures": [
                          f"control points multiplied by {K} (ints): " + "; ".join(badb[:3])]})
              except Exception as e:
                  rep.violation(f"crossmode:{a['name']}:big Python-int control points raised", {"transition": t, "mode": "int", "failures": [
                      f"{type(e).__name__}: {e}"]})
        if a["name"] in ("CvArith", "CvScalar", "CvJoin"):
            # a returned curve: compared as a FUNCTION (the two number types may legitimately store it differently)
            cx_, cf_ = vx["curve"], vf["curve"]
            lim = [float(v) for v in cx_.knotvector.limits]
            bad = []
            if [float(v) for v in cf_.knotvector.limits] != lim:
                bad.append(f"interval {cf_.knotvector.limits} vs {cx_.knotvector.limits}")
            else:
                ks = sorted({Fraction(v) for v in cx_.knotvector.knots})
                for lo, hi in zip(ks[:-1], ks[1:]):
                    for k in (1, 2, 4):
                        u = lo + (hi - lo) * Fraction(k, 5)
                        x, y = float(cx_(u)), float(cf_(float(u)))
                        if not abs(x - y) <= 1e-7 * max(1.0, abs(x)):
                            bad.append(f"at u = {u}: {x!r} vs {y!r}")
            if bad:
                rep.violation(f"crossmode:{a['name']}:result", {"transition": t, "mode": "float", "failures": [
                    "Fraction data and float data give different curves: " + "; ".join(bad[:4])]})
            continue
        px, pf = lx[a["obj"]], lf[a["obj"]]
        ok = len(px.ctrlpoints) == len(pf.ctrlpoints) and all(
            abs(float(x) - float(y)) <= 1e-7 * max(1.0, abs(float(x))) for x, y in zip(px.ctrlpoints, pf.ctrlpoints))
        if ok and (px.weights is None) == (pf.weights is None) and px.weights is not None:
            ok = all(abs(float(x) - float(y)) <= 1e-7 * max(1.0, abs(float(x))) for x, y in zip(px.weights, pf.weights))
        if not ok:
            rep.violation(f"crossmode:{a['name']}:result",
                          {"transition": t, "failures": [f"Fraction data gives {[str(x) for x in px.ctrlpoints]}, float data gives {[float(y) for y in pf.ctrlpoints]}"], "mode": "float"})
        else:
            ev.sample({"crossmode": a, "fraction": [str(x) for x in px.ctrlpoints][:4], "float": [float(y) for y in pf.ctrlpoints][:4]}, limit=9)
    ev.validated += n
    ev.extra["cross_mode_compared"] = ev.extra.get("cross_mode_compared", 0) + n


def model_replay_cached(prop, tier, ev, rep, module, cfg, mode, cache, filt=None, stride=1):
    """like model_replay but one TLC run serves several number modes; Binding B is skipped in inexact modes"""
    key = (module, cfg)
    if key not in cache:
        res = run_tlc(module, cfg)
        need_ok(res, cfg)
        if res.violation:
            raise core.MachineryError(res.violation[:2000])
        ev.add_tlc(res, cfg)
        cache[key] = res
    res = cache[key]
    lib = core.import_lib()
    r = Replayer(lib, mode, validator=None)

    def on_fail(t, fails):
        rep.violation(f"{mode}:" + fail_key(t, fails), {"transition": t, "failures": fails, "mode": mode,
                                                         "model": module, "cfg": cfg})
    # relationally specified results are judged in Fraction mode by the property's own check; here they are
    # executed only in the exact modes, to see that exact data still give exact numbers
    recs = [t for t in res.records if t["ret"].get("rel") != "sem" or r.mode.exact]
    if filt is not None:
        recs = [t for t in recs if filt(t)]
    if stride > 1:      # quick tier: every stride-th transition, offset by the seed
        recs = recs[core.seed() % stride::stride]
    n = replay_all(recs, r, on_fail, sample=lambda t: ev.sample({"mode": mode, **short(t)}), path_records=res.records)
    ev.validated += n
    per = ev.extra.setdefault("replayed_by_mode", {})
    per[mode] = per.get(mode, 0) + n


CHECKS = {"C15": c15, "C16": c16, "C10": c10, "C18": c18, "C01": c01, "C02": c02, "C03": c03, "C04": c04, "C05": c05, "C06": c06, "C07": c07, "C08": c08,
          "C13": c13, "C14": c14, "C09": c09, "C11": c11, "C12": c12, "C17": c17, "C19": c19, "C20": c20}


def run(prop, tier):
    if prop not in CHECKS:
        raise core.MachineryError(f"no check registered for {prop}")
    return CHECKS[prop](tier)


def replay_file(prop, path):
    """re-execute one recorded violation against the current tree (VERIF_REPO) and judge it again"""
    from .trace import Validator
    from . import trace
    with open(path) as f:
        doc = json.load(f)
    d = doc["detail"]
    t = d.get("transition")
    lib = core.import_lib()
    if t is not None and "2-D" in str(d.get("mode", "")):
        from .vector import vector_replay, vector_fit, vector_matmul, vector_scalar_ops, vector_fitpoints
        recs = [t] + ([d["pair"]] if d.get("pair") else [])
        fails_all = []
        val = Validator()
        vector_replay(recs, lib, lambda tt, fails: fails_all.extend(fails))
        if len(recs) < 2:
            print("this replay file holds one transition of a 2-D pair; re-run the check to re-create the pair")
            return 2
        if fails_all:
            print(f"VIOLATION property={prop} replay={path}")
            for x in fails_all:
                print("  " + x)
            return 1
        print(f"replay of {path}: conforms now")
        return 0
    if t is not None and doc.get("key", "").startswith("CvFitPoints:default nodes"):
        ev = Evidence(prop, "quick", core.seed())
        rep = Reporter(prop, ev)
        default_nodes_equivariant(ev, rep, [t])
        if rep.new:
            print(f"VIOLATION property={prop} replay={path}")
            for x in rep.new[0][1]["failures"]:
                print("  " + x)
            return 1
        print(f"replay of {path}: conforms now")
        return 0
    if t is not None and doc.get("key", "").startswith("crossmode:"):
        ev = Evidence(prop, "quick", core.seed())
        rep = Reporter(prop, ev)

        class _One:
            records = [dict(t, d=1)]
        cross_mode(ev, rep, "x", "y", {("x", "y"): _One})
        if rep.new:
            print(f"VIOLATION property={prop} replay={path}")
            for x in rep.new[0][1]["failures"]:
                print("  " + x)
            return 1
        print(f"replay of {path}: conforms now")
        return 0
    if t is not None and isinstance(t, dict) and "act" in t and "pre" in t:
        val = Validator()
        r = Replayer(lib, d.get("mode", "fraction") if d.get("mode") in ("fraction", "int", "float", "numpy.float64", "huge", "minimal-point", "tiny-weights", "stretch", "int-knots", "far-float") else "fraction",
                     validator=val)
        live = r.build(t["pre"])
        r.reset_module_state()
        cls, v, exc = r.execute(live, t["act"])
        fails = r.compare(live, t, cls, v, exc)
        if val.events:
            verdicts, unknown, _ = val.run()
            for e, _tag in val.events:
                fails += [f"clause {c}" for c in (verdicts.get(e["id"]) or []) if not c.startswith("?")]
        if fails:
            print(f"VIOLATION property={prop} replay={path}")
            for x in fails:
                print("  " + x)
            return 1
        print(f"replay of {path}: conforms now")
        return 0
    if "event" in d:      # an observation recorded by a driver / the suite recorder: judged again as recorded
        return trace.replay_event(prop, doc)
    print("nothing replayable in this file")
    return 2
