"""Seeded random drivers (thorough tier): histories beyond the exhaustive universe - more knots, degree up to 5,
denominators up to 12, 20-40 calls per object - executed on the real library and judged by TLC.

* structural clauses (well-formedness, atomicity, operands, knot-vector algebra): the calls are recorded by the
  external recorder (harness/recorder.py, installed in-process) and judged by spec/TraceSuite.tla;
* function preservation along a history (insert / elevate / exact remove / clean / split+join): "SameFunction"
  events with observed values, judged by spec/Trace.tla.
"""
from __future__ import annotations

import copy
import json
import os
import random
import tempfile
from fractions import Fraction

from . import core
from .core import rat, rats


def rand_kv(rng, maxdeg=5, maxknots=5, den=12):
    p = rng.randint(0, maxdeg)
    lo = Fraction(rng.randint(-6, 6), rng.choice([1, 2, 3]))
    width = Fraction(rng.randint(1, 8), rng.choice([1, 2, 3]))
    k = rng.randint(0, maxknots)
    inner = sorted({lo + width * Fraction(rng.randint(1, den - 1), den) for _ in range(k)})
    vec = [lo] * (p + 1)
    for x in inner:
        vec += [x] * rng.randint(1, p + 1)
    vec += [lo + width] * (p + 1)
    return vec


def rand_nodes(rng, kv, allow_bad=True):
    lo, hi = kv.limits
    pool = list(kv.knots) + [lo + (hi - lo) * Fraction(rng.randint(1, 23), 24) for _ in range(3)]
    if allow_bad and rng.random() < 0.25:
        pool += [lo - 1, hi + Fraction(1, 2)]
    return [rng.choice(pool) for _ in range(rng.randint(1, 3))]


def kv_history(lib, rng, steps):
    KV = lib.KnotVector
    kv = KV(rand_kv(rng))
    for _ in range(steps):
        op = rng.choice(["insert", "insert", "remove", "remove", "shift", "scale", "normalize", "degree", "ior", "iand",
                         "or", "and", "split", "span", "mult", "valid", "iadd", "isub"])
        try:
            if op == "insert":
                kv.insert(rand_nodes(rng, kv))
            elif op == "iadd":
                kv += rand_nodes(rng, kv) if rng.random() < 0.7 else Fraction(rng.randint(-3, 3), 2)
            elif op == "remove":
                kv.remove([rng.choice(list(kv) + [Fraction(7, 13)]) for _ in range(rng.randint(1, 2))])
            elif op == "isub":
                kv -= [rng.choice(list(kv))] if rng.random() < 0.7 else Fraction(rng.randint(-3, 3), 2)
            elif op == "shift":
                kv.shift(Fraction(rng.randint(-5, 5), rng.choice([1, 2, 3])))
            elif op == "scale":
                kv.scale(Fraction(rng.randint(-1, 6), rng.choice([1, 2, 3])))
            elif op == "normalize":
                kv.normalize()
            elif op == "degree":
                kv.degree = max(0, kv.degree + rng.choice([-1, 1, 1, 2]))
            elif op in ("ior", "iand", "or", "and"):
                other = list(kv)
                o = KV(other)
                try:
                    if rng.random() < 0.6:
                        o.insert(rand_nodes(rng, o, allow_bad=False))
                    if rng.random() < 0.4:
                        o.degree = o.degree + 1
                    if rng.random() < 0.1:
                        o.shift(1)
                except ValueError:
                    pass
                if op == "ior":
                    kv |= o
                elif op == "iand":
                    kv &= o
                elif op == "or":
                    kv | o
                else:
                    kv & o
            elif op == "split":
                kv.split(rand_nodes(rng, kv))
            elif op == "span":
                kv.span(rand_nodes(rng, kv))
            elif op == "mult":
                kv.mult(rand_nodes(rng, kv))
            elif op == "valid":
                kv.valid(rand_nodes(rng, kv))
        except Exception:
            pass  # refusals are part of the history; the recorder has logged the outcome class
        if len(kv) > 40:
            kv = KV(rand_kv(rng))


def project_curve(c):
    return {"U": rats(c.knotvector), "P": rats(c.ctrlpoints), "W": [] if c.weights is None else rats(c.weights)}


def _deg(U):
    k = 0
    while k + 1 < len(U) and U[k + 1] == U[0]:
        k += 1
    return k


def sample_values(c, d, curve):
    """observed values of `curve` (the live result) on SamplePts(breaks(c) u breaks(d), deg c + deg d)"""
    deg = _deg(c["U"]) + _deg(d["U"])
    ks = sorted({core.fr(x) for x in c["U"]} | {core.fr(x) for x in d["U"]})
    pts = set(ks)
    for a, b in zip(ks[:-1], ks[1:]):
        for k in range(1, deg + 2):
            pts.add(a + (b - a) * Fraction(k, deg + 2))
    out = []
    for u in sorted(pts):
        v = [0, 0]
        try:
            r = rat(curve(u))
            if core.fits32(r):
                v = r
        except Exception:
            pass
        out.append([rat(u), v])
    return out


def curve_history(lib, rng, steps, val, rational):
    """function-preserving history on one curve; emits SameFunction events into val (trace.Validator)"""
    Curve = lib.Curve
    U = rand_kv(rng, maxdeg=3, maxknots=3, den=6)
    c = Curve(U)
    n = c.npts
    c.ctrlpoints = [Fraction(rng.randint(-6, 6), rng.choice([1, 2])) for _ in range(n)]
    if rational:
        c.weights = [Fraction(rng.randint(1, 4), rng.choice([1, 2])) for _ in range(n)]
    inserted = []
    for _ in range(steps):
        pre = project_curve(c)
        op = rng.choice(["insert", "insert", "elevate", "remove", "clean", "splitjoin", "copyop"])
        name = op
        try:
            if op == "insert":
                nodes = [x for x in rand_nodes(rng, c.knotvector, allow_bad=False)
                         if c.knotvector.limits[0] < x < c.knotvector.limits[1]][:2]
                if not nodes:
                    continue
                c.knot_insert(nodes)
                inserted += nodes
            elif op == "elevate":
                if c.degree >= 5:
                    continue
                c.degree_increase(1)
            elif op == "remove":
                if not inserted:
                    continue
                x = inserted.pop(rng.randrange(len(inserted)))
                c.knot_remove([x])
            elif op == "clean":
                c.clean()
                inserted = []
            elif op == "splitjoin":
                lo, hi = c.knotvector.limits
                x = lo + (hi - lo) * Fraction(rng.randint(1, 7), 8)
                a, b = c.split([x])
                c2 = a | b
                c = c2
                inserted = []
            elif op == "copyop":
                d = copy.deepcopy(c)
                d.degree_increase(1)
                d.ctrlpoints = [2 * p for p in d.ctrlpoints]
        except ValueError:
            # a refusal is allowed for `remove` only when the knot is not exactly removable any more
            # (e.g. it was consumed by an elevation): the state must be unchanged, which the clause checks
            pass
        except Exception as e:
            val.add({"name": "DriverError", "op": op, "error": repr(e)}, c=pre)
            return
        try:
            post = project_curve(c)
        except TypeError as e:
            val.add({"name": "DriverError", "op": op, "error": "inexact number: " + str(e)}, c=pre)
            return
        if len(post["U"]) > 26 or not core.fits32([pre, post], 2 ** 20):
            return
        val.add({"name": "SameFunction", "op": name}, c=pre, d=post, dv=sample_values(pre, post, c))


def rand_curve(lib, rng, maxdeg=6, maxknots=5, rational=False, den=6):
    U = rand_kv(rng, maxdeg=maxdeg, maxknots=maxknots, den=den)
    c = lib.Curve(U)
    n = c.npts
    c.ctrlpoints = [Fraction(rng.randint(-6, 6), rng.choice([1, 2, 3])) for _ in range(n)]
    if rational:
        c.weights = [Fraction(rng.randint(1, 5), rng.choice([1, 2])) for _ in range(n)]
    return c


def big_eval(lib, rng, val, count):
    """C01 on larger instances (degree up to 6, up to 5 interior knots of any multiplicity): observed values on a
    grid incl. every knot and both ends, judged by TLC against Eval"""
    tall = []
    for p in (8, 10, 12):                                   # beyond every exhaustive bound
        for inner, rational in (([], False), ([Fraction(1)], True)):
            U = [Fraction(-1)] * (p + 1) + inner * 2 + [Fraction(2)] * (p + 1)
            c = lib.Curve(U)
            c.ctrlpoints = [Fraction(rng.randint(-3, 3)) for _ in range(c.npts)]
            if rational:
                c.weights = [Fraction(1 + (i % 3)) for i in range(c.npts)]
            tall.append(c)
    for k in range(count + len(tall)):
        c = tall[k] if k < len(tall) else rand_curve(lib, rng, rational=(k % 2 == 1))
        pc = project_curve(c)
        ks = sorted(set(c.knotvector))
        pts = set(ks)
        for a, b in zip(ks[:-1], ks[1:]):
            for i in range(1, 3 if k < len(tall) else 4):
                pts.add(a + (b - a) * Fraction(i, 4))
        pts = sorted(pts)
        try:
            vals = c(pts)
            dv = []
            for u, v in zip(pts, vals):
                r = rat(v)
                dv.append([rat(u), r if core.fits32(r) else [0, 0]])
        except Exception as e:
            val.add({"name": "DriverError", "op": "eval", "error": repr(e)}, c=pc)
            continue
        if core.fits32(pc, 2 ** 20):
            val.add({"name": "EvalObs"}, c=pc, dv=dv)


def big_basis(lib, rng, val, count):
    for k in range(count):
        U = rand_kv(rng, maxdeg=5, maxknots=4, den=6)
        f = lib.Function(U)
        W = []
        if k % 2:
            W = [Fraction(rng.randint(1, 5), rng.choice([1, 2])) for _ in range(f.npts)]
            f.weights = W
        j = f.degree if W else rng.randint(0, f.degree)
        lo, hi = U[0], U[-1]
        for u in (lo, hi, rng.choice(U), lo + (hi - lo) * Fraction(rng.randint(1, 16), 17)):
            try:
                row = [rat(x) for x in f[:, j](u)]
            except Exception as e:
                val.add({"name": "DriverError", "op": "basis", "error": repr(e)}, c={"U": rats(U), "P": [], "W": rats(W)})
                continue
            if core.fits32(row):
                val.add({"name": "BasisObs", "kv": rats(U), "weights": rats(W), "j": j, "u": rat(u), "row": row})


def big_integ(lib, rng, val, count):
    """C10 on tall instances: default exact integration of splines of degree up to 12"""
    from compmec.nurbs.calculus import Integrate
    tall = []
    for p in (8, 9, 10, 11, 12, 13):                       # deliberately beyond every exhaustive bound
        for inner in ([], [Fraction(1, 2)]):
            U = [Fraction(0)] * (p + 1) + inner + [Fraction(2)] * (p + 1)
            c = lib.Curve(U)
            c.ctrlpoints = [Fraction(rng.randint(-4, 4)) for _ in range(c.npts)]
            tall.append(c)
    for k in range(count + len(tall)):
        c = tall[k] if k < len(tall) else rand_curve(lib, rng, maxdeg=6, maxknots=4, rational=False, den=4)
        pc = project_curve(c)
        try:
            v = rat(Integrate.scalar(c))
        except Exception as e:
            val.add({"name": "DriverError", "op": "integrate", "error": repr(e)}, c=pc)
            continue
        if core.fits32(pc, 2 ** 24):
            val.add({"name": "IntegObs", "value": v if core.fits32(v) else [0, 0]}, c=pc)


def fn_history(lib, rng, val, count):
    """C02 along a history on ONE Function object: evaluate, change the degree / the knot vector in place,
    evaluate again (the second evaluation is judged against the table of the CURRENT knot vector)"""
    for k in range(count):
        U = rand_kv(rng, maxdeg=3, maxknots=3, den=4)
        kv = lib.KnotVector(U)
        f = lib.Function(kv)
        W = []
        for step in range(4):
            lo, hi = f.knotvector.limits
            u = rng.choice([lo, hi, lo + (hi - lo) * Fraction(rng.randint(1, 8), 9), rng.choice(list(f.knotvector))])
            try:
                row = [rat(x) for x in f(u)]
                Unow = rats(f.knotvector)
            except Exception as e:
                val.add({"name": "DriverError", "op": f"Function history step {step}", "error": repr(e)},
                        c={"U": rats(list(f.knotvector)), "P": [], "W": rats(W)})
                break
            if core.fits32([row, Unow], 2 ** 20):
                val.add({"name": "BasisObs", "kv": Unow, "weights": rats(W), "j": f.degree, "u": rat(u), "row": row,
                         "history_step": step})
            op = rng.choice(["degree+", "degree-", "shift", "scale", "insert", "normalize", "weights"])
            try:
                if op == "degree+":
                    f.degree = f.degree + 1
                elif op == "degree-":
                    f.degree = max(0, f.degree - 1)
                elif op == "shift":
                    f.knotvector.shift(Fraction(rng.randint(-3, 3), 2))
                elif op == "scale":
                    f.knotvector.scale(Fraction(rng.randint(1, 5), 2))
                elif op == "insert":
                    f.knotvector.insert([lo + (hi - lo) * Fraction(rng.randint(1, 6), 7)])
                elif op == "normalize":
                    f.knotvector.normalize()
                elif op == "weights":
                    W = [Fraction(rng.randint(1, 5), rng.choice([1, 2])) for _ in range(f.npts)]
                    f.weights = W
                if op in ("degree+", "degree-", "insert") and W:
                    W = []
                    f.weights = None
            except ValueError:
                pass


def big_elevate(lib, rng, val, count):
    """C06 on tall instances: multi-span curves elevated to degree 6..10 (beyond every exhaustive bound)"""
    cases = [(3, 4), (4, 3), (5, 2), (6, 1), (2, 5), (3, 5), (4, 4), (1, 6), (5, 5), (2, 2), (3, 1)]
    for k in range(max(count, len(cases))):
        p, t = cases[k % len(cases)]
        inner = [Fraction(0)] * rng.randint(1, min(p, 2)) + ([Fraction(3, 2)] if rng.random() < 0.5 else [])
        U = [Fraction(-1)] * (p + 1) + inner + [Fraction(2)] * (p + 1)
        c = lib.Curve(U)
        c.ctrlpoints = [Fraction(rng.randint(-4, 4), rng.choice([1, 2])) for _ in range(c.npts)]
        if k % 3 == 2:
            c.weights = [Fraction(1 + (i % 3)) for i in range(c.npts)]
        pre = project_curve(c)
        try:
            if k % 2:
                c.degree = p + t
            else:
                c.degree_increase(t)
            post = project_curve(c)
        except Exception as e:
            val.add({"name": "DriverError", "op": f"degree_increase({t}) at degree {p}", "error": repr(e)}, c=pre)
            continue
        d = {"U": post["U"], "P": [x if core.fits32(x) else [0, 0] for x in post["P"]],
             "W": [x if core.fits32(x) else [0, 0] for x in post["W"]]}
        val.add({"name": "ElevObs", "times": t}, c=pre, d=d, dv=sample_values(pre, post, c))


def big_arith(lib, rng, val, count):
    """C08 / C13 on larger instances: A op B with observed values, A == B against function equality"""
    from .drivers import sample_values as _sv  # noqa
    for k in range(count):
        A = rand_curve(lib, rng, maxdeg=3, maxknots=3, rational=(k % 3 == 2), den=4)
        lo, hi = A.knotvector.limits
        UB = rand_kv(rng, maxdeg=3, maxknots=2, den=4)
        s = (hi - lo) / (UB[-1] - UB[0])
        UB = [lo + (x - UB[0]) * s for x in UB]
        B = lib.Curve(UB)
        B.ctrlpoints = [Fraction(rng.randint(1, 5), rng.choice([1, 2])) for _ in range(B.npts)]
        pa, pb = project_curve(A), project_curve(B)
        op = rng.choice(["add", "sub", "mul", "div"])
        try:
            R = {"add": lambda: A + B, "sub": lambda: A - B, "mul": lambda: A * B, "div": lambda: A / B}[op]()
            pr = project_curve(R)
        except Exception as e:
            val.add({"name": "DriverError", "op": op, "error": repr(e)}, c=pa, b=pb)
            continue
        if not core.fits32([pa, pb], 2 ** 20):
            continue
        deg = _deg(pa["U"]) + _deg(pb["U"]) + _deg(pr["U"])
        ks = sorted({core.fr(x) for x in pa["U"]} | {core.fr(x) for x in pb["U"]} | {core.fr(x) for x in pr["U"]})
        pts = set(ks)
        for a, b in zip(ks[:-1], ks[1:]):
            for i in range(1, deg + 2):
                pts.add(a + (b - a) * Fraction(i, deg + 2))
        dv = []
        for u in sorted(pts):
            v = [0, 0]
            try:
                r = rat(R(u))
                if core.fits32(r):
                    v = r
            except Exception:
                pass
            dv.append([rat(u), v])
        d = {"U": pr["U"], "P": [x if core.fits32(x) else [0, 0] for x in pr["P"]],
             "W": [x if core.fits32(x) else [0, 0] for x in pr["W"]]}
        val.add({"name": "CvArith", "op": op}, c=pa, b=pb, d=d, dv=dv)
        # equality: a refined copy is equal, a perturbed copy is not
        try:
            C2 = copy.deepcopy(A)
            C2.knot_insert([lo + (hi - lo) * Fraction(rng.randint(1, 6), 7)])
            if rng.random() < 0.5:
                C2.degree_increase(1)
            same = bool(A == C2)
            pts2 = list(C2.ctrlpoints)
            pts2[rng.randrange(len(pts2))] += Fraction(1, 10)
            C3 = copy.deepcopy(C2)
            C3.ctrlpoints = pts2
            diff = bool(A == C3)
            if core.fits32([project_curve(C2), project_curve(C3)], 2 ** 20):
                val.add({"name": "EqObs", "eq": same}, c=pa, b=project_curve(C2))
                val.add({"name": "EqObs", "eq": diff}, c=pa, b=project_curve(C3))
        except Exception as e:
            val.add({"name": "DriverError", "op": "eq", "error": repr(e)}, c=pa)


def run_recorded(fn):
    """run fn() with the external recorder installed in-process; returns the recorded events"""
    fd, out = tempfile.mkstemp(prefix="verif_drv_", suffix=".ndjson")
    os.close(fd)
    os.environ["VERIF_TRACE_OUT"] = out
    from . import recorder
    recorder.OUT = out
    recorder._out = None
    recorder.install()
    try:
        fn()
    finally:
        if recorder._out is not None:
            recorder._out.close()
            recorder._out = None
    events = []
    with open(out) as f:
        for line in f:
            events.append(json.loads(line))
    os.unlink(out)
    return events


def main(argv):
    """python -m harness.drivers kv <seed> <histories> <steps> <out.ndjson>   (run in its own process: the
    recorder patches the classes)"""
    kind, seed, hist, steps, out = argv[0], int(argv[1]), int(argv[2]), int(argv[3]), argv[4]
    lib = core.import_lib()
    if kind == "kv":
        def go():
            for h in range(hist):
                kv_history(lib, random.Random(seed * 100003 + h), steps)
        events = run_recorded(go)
        with open(out, "w") as f:
            for e in events:
                f.write(json.dumps(e, separators=(",", ":")) + "\n")
    else:
        raise SystemExit("unknown driver")


if __name__ == "__main__":
    import sys
    main(sys.argv[1:])
